"""Deviation-bounded exploration around natural pickles (E1 bound 3): every single-opcode deletion, replacement by each
alphabet symbol and insertion of each alphabet symbol at every position of a base pickle (deviation 1), still exhaustive
within that bound; reaches long programs a depth bound cannot."""
import pickletools

from . import e1, e3, refvm
from .asm import strip_frames
from .watchdog import Timeout, limit


def variants(data, syms):
    ops = list(pickletools.genops(data))
    spans = []
    for k, (_i, _a, pos) in enumerate(ops):
        end = ops[k + 1][2] if k + 1 < len(ops) else len(data)
        spans.append((pos, end))
    yield ("base", data)
    n = len(spans)
    for i, (s, e) in enumerate(spans[:-1]):  # never touch the final STOP
        yield (f"del@{i}", data[:s] + data[e:])
        for sym in syms:
            if data[s:e] != sym.data:
                yield (f"rep@{i}={sym.label}", data[:s] + sym.data + data[e:])
    for i, (s, e) in enumerate(spans):
        for sym in syms:
            yield (f"ins@{i}={sym.label}", data[:s] + sym.data + data[s:])


class _Cfg:
    def __init__(self, prop, opts=None):
        self.prop = prop
        self.opts = opts or {}

    def labels(self, seq):
        return list(seq)


_STATE = {}


def _base(item):
    tag, data = item
    prop, syms, oracle_names, modules = _STATE["args"]
    out = e1.Out()
    oracles = [getattr(m, n) for m, n in zip(modules, oracle_names)]
    for vtag, vdata in variants(data, syms):
        out.stats.inc("deviation_variants")
        try:
            vm = refvm.RefVM(vdata, typed=True)  # same typing discipline as the depth-bounded exploration
            vm.run()
            if vm._file_read.__self__.tell() != len(vdata):
                raise ValueError("STOP before the end")
        except Exception:  # noqa: BLE001 - the reference VM rejects this variant: outside the quantifier
            out.stats.inc("deviation_vm_rejected")
            continue
        out.stats.inc("deviation_programs")
        term = e1.Term(_Cfg(prop), (f"{tag}:{vtag}",), vdata)
        for orc in oracles:
            try:
                with limit(120):
                    orc(term, out)
            except (Exception, Timeout) as e:  # noqa: BLE001
                e1._unexpected(_Cfg(prop), out, e, [f"{tag}:{vtag}"], vdata, len(vdata))
    return out


def run(prop, bases, syms, oracles, rep, chunksize=1):
    """bases: [(tag, bytes)] (frames are stripped); oracles: [(module, function name)]."""
    bases = [(t, strip_frames(b)) for t, b in bases]
    _STATE["args"] = (prop, list(syms), [n for _m, n in oracles], [m for m, _n in oracles])
    total = e3.pmap(_base, bases, rep, chunksize=chunksize)
    n = total.stats.get("deviation_programs", 0)
    for k in ("transitions", "traces_validated_against_impl", "evaluations"):
        rep.add(k, n)
    rep.set("deviation_bound", 1)
    rep.set("deviation_bases", len(bases))
    rep.set("deviation_alphabet", [s.label for s in syms])
    return total
