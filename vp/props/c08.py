"""C08  Injection adds exactly one call and preserves the original pickle's behaviour."""
import io
import json
import pickle
import pickletools
import sys

from .. import corpus, e1, e3, refvm
from ..asm import asm, sbu, strip_frames
from ..common import Report

PROP = "C08"

FN = "def vp_f(obj, *a):\n    import vp_sink\n    vp_sink.hit(*a)\n    return ('wrapped', obj)\n"
EXEC_PAYLOAD = "import vp_sink; vp_sink.hit('exec-arg')"

# mode -> (apply(p), expected sink args, result kind)
MODES = {
    "insert_python": (lambda p: p.insert_python("a1", 2, module="vp_sink", attr="hit"), ("a1", 2), "keep"),
    "insert_python-replace": (lambda p: p.insert_python("a1", 2, module="vp_sink", attr="hit", use_output_as_unpickle_result=True), ("a1", 2), "replace"),
    "insert_python-runlast": (lambda p: p.insert_python("a1", 2, module="vp_sink", attr="hit", run_first=False), ("a1", 2), "keep"),
    "insert_python-runlast-replace": (lambda p: p.insert_python("a1", 2, module="vp_sink", attr="hit", run_first=False,
                                                                use_output_as_unpickle_result=True), ("a1", 2), "replace"),
    "insert_python-listarg": (lambda p: p.insert_python(["x", 1], {"k": 2}, module="vp_sink", attr="hit"), (["x", 1], {"k": 2}), "keep"),
    "insert_python-nested-single": (lambda p: p.insert_python([{}], [["a"]], {"k": [[1, 2]]}, [[]], module="vp_sink", attr="hit"),
                                    ([{}], [["a"]], {"k": [[1, 2]]}, [[]]), "keep"),
    "insert_python-boolint": (lambda p: p.insert_python(1, True, 0, False, module="vp_sink", attr="hit"), (1, True, 0, False), "keep"),
    "insert_python-intbool": (lambda p: p.insert_python(True, 1, False, 0, module="vp_sink", attr="hit"), (True, 1, False, 0), "keep"),
    "insert_python-int-boundaries": (lambda p: p.insert_python(2**31, -(2**31), 2**31 - 1, 2**32, 65536, 0, 127, 128, 200, 255, 32768, 40000, 65535,
                                                                       module="vp_sink", attr="hit"),
                                     (2**31, -(2**31), 2**31 - 1, 2**32, 65536, 0, 127, 128, 200, 255, 32768, 40000, 65535), "keep"),
    "insert_python-long-text": (lambda p: p.insert_python("é" * 128, "x" * 255, "y" * 256, "\u20ac" * 90, module="vp_sink", attr="hit"),
                                ("é" * 128, "x" * 255, "y" * 256, "\u20ac" * 90), "keep"),
    "insert_python_exec": (lambda p: p.insert_python_exec(EXEC_PAYLOAD), ("exec-arg",), "keep"),
    "insert_python_exec-runlast": (lambda p: p.insert_python_exec(EXEC_PAYLOAD, run_first=False), ("exec-arg",), "keep"),
    # exec() returns None: with the replace-result flag the rewritten pickle unpickles to None
    "insert_python_exec-replace": (lambda p: p.insert_python_exec(EXEC_PAYLOAD, use_output_as_unpickle_result=True), ("exec-arg",), "none"),
    "insert_python_exec-runlast-replace": (lambda p: p.insert_python_exec(EXEC_PAYLOAD, run_first=False, use_output_as_unpickle_result=True),
                                           ("exec-arg",), "none"),
    "append_python-pop": (lambda p: p.append_python("a1", 2, module="vp_sink", attr="hit", pop_result=True), ("a1", 2), "keep"),
    "append_python-nopop": (lambda p: p.append_python("a1", 2, module="vp_sink", attr="hit", pop_result=False), ("a1", 2), "replace"),
    "fn_call": (lambda p: p.insert_function_call_on_unpickled_object(FN), (), "wrapped"),
    "fn_call-args": (lambda p: p.insert_function_call_on_unpickled_object(FN, constant_args=["c1", 7]), ("c1", 7), "wrapped"),
    "fn_call-compiled": (lambda p: p.insert_function_call_on_unpickled_object(FN, compile_code=True), (), "wrapped"),
    "fn_call-compiled-args": (lambda p: p.insert_function_call_on_unpickled_object(FN, constant_args=["c1", 7], compile_code=True), ("c1", 7), "wrapped"),
    "magic_int": (lambda p: p.insert_magic_int(123456789), None, "keep"),
    "magic_int-0": (lambda p: p.insert_magic_int(123456789, index=0), None, "keep"),
}

_FC = []
_FC_ON = [False]


def _audit(event, args):
    if _FC_ON[0] and event == "pickle.find_class":
        _FC.append((args[0], args[1]))


_HOOKED = [False]


def hook():
    if not _HOOKED[0]:
        sys.addaudithook(_audit)
        _HOOKED[0] = True


def observed_load(data, loader):
    """Load data for real; returns (outcome, value, sink log, find_class sequence)."""
    import vp_sink

    vp_sink.reset()
    del _FC[:]
    _FC_ON[0] = True
    try:
        try:
            v = pickle.loads(data) if loader == "C" else pickle._loads(data)
            outcome = "ok"
        except Exception as e:  # noqa: BLE001
            v = f"{type(e).__name__}: {e}"
            outcome = "raised"
    finally:
        _FC_ON[0] = False
    log = list(vp_sink.LOG)
    fc = list(_FC)
    vp_sink.reset()
    return outcome, v, log, fc


def is_subsequence(small, big):
    it = iter(big)
    return all(any(x == y for y in it) for x in small)


def vm_residue(data):
    """Number of values left on the reference VM's stack (all frames) when STOP has popped its result."""
    # the injectors do not rewrite FRAME lengths (the C unpickler does not mind); the reference VM's
    # unframer would, so frames are stripped for this stack-shape observation only
    vm = refvm.RefVM(strip_frames(data))
    try:
        vm.run()
    except Exception:  # noqa: BLE001
        return None
    return vm.depth()


def bases(tier):
    import vp_objs as o

    vals = []
    ov = corpus.object_values()
    pick = range(len(ov))
    for i in pick:
        vals.append((f"obj[{i}]", ov[i]))
    vals += [("noted", [o.Noted(1), o.Noted(2), "tail"]), ("noted-shared", (o.Noted(7), [o.Noted(8)])),
             ("list", [1, 2, 3, 4]), ("str", "text"), ("none", None), ("big-memo", [[i] for i in range(300)]),
             ("shared", (lambda d: [d, d, {"x": d}])({"a": [1]})), ("set", {1, 2}), ("bytes", b"\x00\xff" * 3)]
    out = []
    for tag, v in vals:
        for ptag, b in corpus.pickles_of(v):
            out.append((f"{tag}/{ptag}", b))
    # assembler programs with sparse memo keys, incl. the injector's own fixed keys 1, 2 and 321987
    note = lambda i: asm(("GLOBAL", ("vp_sink", "note")), ("BININT1", i), "TUPLE1", "REDUCE")  # noqa: E731
    progs = {
        "asm-binput5": asm("EMPTY_LIST", ("BINPUT", 5), note(1), "APPEND", ("BINGET", 5), "APPEND", "STOP"),
        "asm-longbinput": asm("EMPTY_LIST", ("LONG_BINPUT", 70000), note(1), "APPEND", "POP", ("LONG_BINGET", 70000), "STOP"),
        "asm-put321987": asm("EMPTY_LIST", ("PUT", 321987), note(3), "APPEND", "POP", ("GET", 321987), "STOP"),
        "asm-put1-put2": asm(note(1), ("PUT", 1), note(2), ("PUT", 2), "TUPLE2", ("GET", 1), ("GET", 2), "TUPLE3", "STOP"),
        "asm-memoize-after-put": asm(("PROTO", 4), "EMPTY_LIST", ("BINPUT", 3), note(1), "MEMOIZE", "APPEND", ("BINGET", 1), "APPEND", "STOP"),
        "asm-no-proto": asm("MARK", note(1), note(2), "LIST", "STOP"),
        "asm-proto-only": asm(("PROTO", 2), "NONE", "STOP"),
        "asm-put0-getlater": asm(("PROTO", 2), "EMPTY_DICT", ("BINPUT", 0), sbu("k"), note(4), "SETITEM", "POP", ("BINGET", 0), "STOP"),
    }
    for k, b in progs.items():
        out.append((k, b))
    return out


def _base(item):
    import fickling.fickle as fk
    from fickling.analysis import check_safety

    hook()
    tag, data = item
    out = e1.Out()
    st = out.stats
    framed = any(i.name == "FRAME" for i, _a, _p in pickletools.genops(data))
    loaders = ["C"] if framed else ["C", "py"]
    b_out, b_val, b_log, b_fc = observed_load(data, "C")
    if b_out != "ok":
        st.inc("base_does_not_load")
        return out
    b_res = vm_residue(data)
    try:
        fk.Pickled.load(data).ast
        interpretable = True
    except Exception:  # noqa: BLE001
        interpretable = False
    for mode, (apply, want_args, kind) in MODES.items():
        rp = {"engine": "E3", "base": tag, "mode": mode, "bytes": data}
        st.inc("injections")
        try:
            p = fk.Pickled.load(data)
            apply(p)
            new = p.dumps()
        except Exception as e:  # noqa: BLE001
            if interpretable:
                out.violate(PROP, f"C08|{mode}|helper-raises|{type(e).__name__}",
                            f"{mode} on {tag}: helper raised {type(e).__name__}: {e} although the base decompiles", rp, len(data))
            else:
                st.inc("refused_uninterpretable_base")
            continue
        rp["rewritten"] = new
        names = [i.name for i, _a, _p in pickletools.genops(new)]
        if names.count("STOP") != 1 or names[-1] != "STOP" or sum(1 for _ in pickletools.genops(new)) != len(p):
            out.violate(PROP, f"C08|{mode}|stop-shape", f"{mode} on {tag}: rewritten pickle has {names.count('STOP')} STOP(s), last opcode {names[-1]}", rp, len(data))
            continue
        res = vm_residue(new)
        if b_res == 0 and res not in (0,):
            out.violate(PROP, f"C08|{mode}|stack-residue", f"{mode} on {tag}: {res} value(s) left on the VM stack at STOP (base leaves {b_res})", rp, len(data))
        if want_args is not None:
            try:
                sev = check_safety(fk.Pickled.load(new)).severity.name
            except Exception as e:  # noqa: BLE001
                sev = f"raises {type(e).__name__}"
            if sev == "LIKELY_SAFE":
                out.violate(PROP, f"C08|{mode}|rated-LIKELY_SAFE", f"{mode} on {tag}: fickling rates its own injection LIKELY_SAFE", rp, len(data))
        for loader in loaders:
            st.inc("loads")
            o2, v2, log2, fc2 = observed_load(new, loader)
            lp = dict(rp, loader=loader)
            if o2 != "ok":
                out.violate(PROP, f"C08|{mode}|load-fails|{loader}|{str(v2).split(':')[0]}", f"{mode} on {tag}: {loader} unpickler: {v2}", lp, len(data))
                continue
            hits = [a for (k, a, kw) in log2 if k == "hit"]
            if want_args is None:
                if hits:
                    out.violate(PROP, f"C08|{mode}|unexpected-call", f"{mode} on {tag}: sink called {hits!r}", lp, len(data))
            elif len(hits) != 1:
                out.violate(PROP, f"C08|{mode}|call-count|{len(hits)}", f"{mode} on {tag} ({loader}): injected call ran {len(hits)} times", lp, len(data))
                continue
            elif not _same_args(hits[0], want_args):
                out.violate(PROP, f"C08|{mode}|call-args", f"{mode} on {tag} ({loader}): sink received {hits[0]!r}, asked {want_args!r}", lp, len(data))
            notes_b = [e for e in b_log if e[0] != "hit"]
            notes_2 = [e for e in log2 if e[0] != "hit"]
            if notes_2 != notes_b:
                out.violate(PROP, f"C08|{mode}|original-effects", f"{mode} on {tag} ({loader}): original effects {notes_b!r} became {notes_2!r}", lp, len(data))
            if not is_subsequence(b_fc, fc2):
                out.violate(PROP, f"C08|{mode}|original-resolutions", f"{mode} on {tag} ({loader}): find_class sequence {b_fc[:6]!r} not preserved in {fc2[:8]!r}",
                            lp, len(data))
            if kind == "keep":
                ok = _eq(v2, b_val)
            elif kind == "replace":
                ok = hits and _eq(v2, ("sink-result", hits[0]))
            elif kind == "none":
                ok = v2 is None
            else:
                ok = isinstance(v2, tuple) and len(v2) == 2 and v2[0] == "wrapped" and _eq(v2[1], b_val)
            if not ok:
                out.violate(PROP, f"C08|{mode}|return-value|{kind}", f"{mode} on {tag} ({loader}): returned {repr(v2)[:100]}, base loads {repr(b_val)[:100]}", lp, len(data))
            else:
                st.inc("loads_ok")
    return out


def _same_args(got, want):
    return len(got) == len(want) and all(type(a) is type(b) and a == b for a, b in zip(got, want))


def _eq(a, b):
    try:
        if a == b:
            return True
    except Exception:  # noqa: BLE001
        pass
    # objects without __eq__ (functions, classes by reference compare by identity, fine); fall back to pickled form
    try:
        return pickle.dumps(a, 2) == pickle.dumps(b, 2)
    except Exception:  # noqa: BLE001
        return False


def check(tier):
    rep = Report(PROP, tier)
    bs = bases(tier)
    e3.pmap(_base, bs, rep, chunksize=4)
    n = len(bs) * len(MODES)
    e3.finish_counts(rep, n, rep.cov.get("loads", 0) + rep.cov.get("injections", 0), n)
    rep.set("bases", len(bs))
    rep.set("modes", list(MODES))
    rep.set("rule", "every base pickle (objects, shared refs, >255 memo entries, protocols 0-5, framed and FRAME-stripped, assembler programs with "
                    "sparse memo keys) x every injection helper and flag combination, loaded for real by the C unpickler and (unframed) the "
                    "pure-Python one; sink log, find_class audit events, return value, VM stack at STOP, STOP count, own safety verdict")
    rep.sample({"base": "asm-put1-put2", "mode": "fn_call-args", "loader": "py"})
    rep.assumptions += ["payloads only call the harmless vp_sink fixture; bases only reference fixture classes",
                        "pure-Python unpickler is used for unframed pickles only (the property's quantifier)"]
    return rep.finish()


def replay(path):
    case = json.load(open(path))["case"]
    data = bytes.fromhex(case["bytes"]["hex"])
    o = _base((case["base"], data))
    hit = 0
    for sig, lst in o.viol.items():
        if f"|{case['mode']}|" in sig:
            print(sig, lst[0][2])
            hit = 1
    return hit
