"""C01  Analysis is inert: inspecting a pickle never executes any part of it."""
import io
import json
import os
import pickle
import sys
from contextlib import redirect_stderr, redirect_stdout

from .. import e1, e3
from ..asm import G, INST, SG, alphabet, asm, sbu
from ..common import Report
from ..sandbox import MONITOR
from .c03 import _fold

PROP = "C01"

_WD = [None]


def scratch_file():
    d = _WD[0]
    return os.path.join(d, f"in-{os.getpid()}.pkl"), os.path.join(d, f"report-{os.getpid()}.json")


def entry_points(data):
    """name -> thunk. File-based entry points read a scratch copy of the input."""
    import fickling
    import fickling.fickle as fk
    from ast import unparse

    from fickling import cli
    from fickling.analysis import check_safety
    from fickling.tracing import Trace

    path, report = scratch_file()
    with open(path, "wb") as f:
        f.write(data)
    MONITOR.allowed_write = {report}

    def quiet(fn):
        def run():
            with redirect_stdout(io.StringIO()), redirect_stderr(io.StringIO()):
                return fn()

        return run

    def cli_run(argv):
        def run():
            cwd = os.getcwd()
            os.chdir(_WD[0])
            try:
                try:
                    return cli.main(["fickling"] + argv)
                except SystemExit:
                    return None
            finally:
                os.chdir(cwd)

        return quiet(run)

    def summaries():
        p = fk.Pickled.load(data)
        return (p.has_import, p.has_call, p.has_non_setstate_call, list(p.unsafe_imports()), list(p.non_standard_imports()))

    return {
        "Pickled.load": lambda: fk.Pickled.load(data),
        "StackedPickle.load": lambda: fk.StackedPickle.load(data),
        "ast": lambda: fk.Pickled.load(data).ast,
        "unparse": lambda: unparse(fk.Pickled.load(data).ast),
        "trace": quiet(lambda: Trace(fk.Interpreter(fk.Pickled.load(data))).run()),
        "check_safety": lambda: check_safety(fk.Pickled.load(data)),
        "summaries": summaries,
        "is_likely_safe": lambda: fickling.is_likely_safe(path),
        "cli-decompile": cli_run([path]),
        "cli-trace": cli_run(["--trace", path]),
        "cli-check-safety": cli_run(["--check-safety", path, "--json-output", report]),
        "cli-check-safety-print": cli_run(["--check-safety", path, "--json-output", report, "--print-results"]),
    }


def inspect(data, out, tag, size):
    """Run every analysis entry point on data under the monitor."""
    import re

    tokens = frozenset(t.decode("ascii") for t in re.findall(rb"[A-Za-z_][A-Za-z0-9_]{2,}", data))
    listing_before = sorted(os.listdir(_WD[0]))
    marker = os.environ.get("VP_CANARY_MARKER")
    path, report = scratch_file()
    for name, thunk in entry_points(data).items():
        if os.path.exists(report):
            os.remove(report)
        outcome, events, newmods = MONITOR.run(thunk, tokens)
        live = sys.modules.get("vp_live")
        if live is not None and live.LOG:
            out.violate(PROP, f"C01|{name}|attribute-resolved-on-loaded-module", f"{name} on {tag}: looked up {live.LOG[:3]} on the loaded module vp_live",
                        {"engine": "E4", "entry_point": name, "input": tag, "bytes": data}, size)
            del live.LOG[:]
        out.stats.inc("entry_point_calls")
        out.stats.inc("calls_" + ("returned" if outcome == "returned" else "raised"))
        out.outcomes.add((name, outcome))
        rp = {"engine": "E4", "entry_point": name, "input": tag, "bytes": data, "outcome": outcome}
        for ev in events:
            out.violate(PROP, f"C01|{name}|{ev[0]}", f"{name} on {tag}: forbidden effect {ev} (call {outcome})", rp, size)
        for m in newmods:
            out.violate(PROP, f"C01|{name}|module-loaded|{m.split('.')[0]}", f"{name} on {tag}: module {m} named by the input was loaded", rp, size)
        if "vp_sink" in sys.modules and getattr(sys.modules["vp_sink"], "LOG", None):
            out.violate(PROP, f"C01|{name}|sink-called", f"{name} on {tag}: the sink named by the input was called", rp, size)
        if marker and os.path.exists(marker):
            out.violate(PROP, f"C01|{name}|canary-imported", f"{name} on {tag}: canary marker written: {open(marker).read()!r}", rp, size)
            os.remove(marker)
    if os.path.exists(report):
        os.remove(report)
    after = sorted(os.listdir(_WD[0]))
    mine = {os.path.basename(path)}
    extra = [f for f in after if f not in listing_before and f not in mine and not f.startswith(("in-", "report-"))]
    if extra:
        out.violate(PROP, "C01|files-created", f"{tag}: scratch directory gained {extra}", {"engine": "E4", "input": tag, "bytes": data}, size)


def inert_oracle(term, out):
    inspect(term.data, out, " ".join(term.cfg.labels(term.seq) + ["STOP"]), len(term.seq))


CORE = "STR NONE MARK TUPLE T1 ETUP EDICT REDUCE OBJ NEWOBJ NEWOBJ_EX BUILD BINPERSID POP DUP MEMOIZE BINGET0 STACK_GLOBAL".split()


def sigma(tier="thorough"):
    if tier == "quick":
        core = [c for c in CORE if c not in ("T1", "DUP", "NEWOBJ_EX")]
        return alphabet(core, [G("vp_canary_mod", "boom"), G("vp_canary_pkg.sub", "boom"), G("os", "system"), G("vp_sink", "hit"),
                               SG("vp_canary_pkg.sub", "boom"), SG("builtins", "exec"), INST("vp_canary_mod", "boom"), sym_true(),
                               G("vp_live", "ghost"), INST("vp_live", "ghost")])
    return alphabet(CORE, [G("vp_canary_mod", "boom"), G("vp_canary_pkg.sub", "boom"), G("os", "system"), G("builtins", "eval"),
                           G("vp_sink", "hit"), SG("vp_canary_pkg.sub", "boom"), SG("builtins", "exec"), INST("vp_canary_mod", "boom"),
                           INST("os", "system"), sym_true()])


def sym_true():
    from ..asm import S

    return S("SBU('true')", sbu("true"))


class _Sys:
    def __reduce__(self):
        return (os.system, ("true",))


class _Eval:
    def __reduce__(self):
        return (eval, ("__import__('vp_canary_mod').boom()",))


class _Exec:
    def __reduce__(self):
        return (exec, ("import vp_canary_pkg.sub",))


class _Popen:
    def __reduce__(self):
        import subprocess

        return (subprocess.Popen, (["true"],))


class _Sock:
    def __reduce__(self):
        import socket

        return (socket.create_connection, (("127.0.0.1", 9),))


class _Loads:
    def __reduce__(self):
        return (pickle.loads, (pickle.dumps(_Sys(), 2),))


def natural(tier):
    out = []
    protos = range(6)
    for cls in (_Sys, _Eval, _Exec, _Popen, _Sock, _Loads):
        for p in protos:
            out.append((f"{cls.__name__}/proto{p}", pickle.dumps(cls(), protocol=p)))
    out.append(("nested-list", pickle.dumps([_Sys(), {"k": _Eval()}, (_Exec(),)], protocol=4)))
    out.append(("canary-global", asm(("GLOBAL", ("vp_canary_mod", "boom")), "EMPTY_TUPLE", "REDUCE", "STOP")))
    out.append(("canary-sub-sg", asm(sbu("vp_canary_pkg.sub"), sbu("boom"), "STACK_GLOBAL", "EMPTY_TUPLE", "REDUCE", "STOP")))
    out.append(("canary-inst", asm("MARK", ("INST", ("vp_canary_pkg.sub", "boom")), "STOP")))
    out.append(("sink-obj", asm("MARK", ("GLOBAL", ("vp_sink", "hit")), sbu("x"), "OBJ", "STOP")))
    out.append(("sink-newobj-build", asm(("GLOBAL", ("vp_sink", "hit")), "EMPTY_TUPLE", "NEWOBJ", "EMPTY_DICT", "BUILD", "STOP")))
    out.append(("persid", asm(sbu("vp_canary_mod"), "BINPERSID", "STOP")))
    # callables a "helpful" analysis might be tempted to evaluate: codec lookup by an input-chosen name, marshal.loads of
    # input bytes, attribute lookup on a module that is already loaded
    import marshal

    for proto in (0, 2, 4):
        pre = [("PROTO", proto)] if proto >= 2 else []
        out.append((f"codec-name/proto{proto}", asm(*pre, ("GLOBAL", ("_codecs", "encode")), sbu("text"), sbu("vp_canary_codec"), "TUPLE2", "REDUCE", "STOP")))
        out.append((f"marshal-loads/proto{proto}", asm(*pre, ("GLOBAL", ("marshal", "loads")), ("SHORT_BINBYTES", marshal.dumps(compile("1", "<vp>", "eval"))),
                                                         "TUPLE1", "REDUCE", "STOP")))
    # globals on fickling's own ML allowlist whose packages are not installed here, a URL-fetching call, a large input
    for m, n in (("llava.train.train_dpo_ori", "TrainingArguments"), ("h4.training.config", "DPOTrainingArguments"),
                 ("simpletransformers.config.model_args", "T5Args")):
        out.append((f"allowlisted-absent/{m}/GLOBAL", asm(("GLOBAL", (m, n)), "EMPTY_TUPLE", "REDUCE", "STOP")))
        out.append((f"allowlisted-absent/{m}/SG", asm(("PROTO", 4), sbu(m), sbu(n), "STACK_GLOBAL", "EMPTY_TUPLE", "NEWOBJ", "STOP")))
        out.append((f"allowlisted-absent/{m}/INST", asm("MARK", ("INST", (m, n)), "STOP")))
    for callee in (("urllib.request", "urlopen"), ("urllib.request", "urlretrieve"), ("torch.hub", "download_url_to_file"), ("requests", "get")):
        out.append((f"url/{callee[1]}", asm(("GLOBAL", callee), sbu("http://127.0.0.1:9/vp-second-stage"), "TUPLE1", "REDUCE", "STOP")))
    out.append(("live-obj", asm("MARK", ("GLOBAL", ("vp_live", "ghost")), "OBJ", "STOP")))
    out.append(("live-inst", asm("MARK", ("INST", ("vp_live", "ghost")), "STOP")))
    out.append(("live-newobj", asm(("GLOBAL", ("vp_live", "ghost")), "EMPTY_TUPLE", "NEWOBJ", "STOP")))
    out.append(("live-reduce", asm(("GLOBAL", ("vp_live", "ghost")), "EMPTY_TUPLE", "REDUCE", "EMPTY_DICT", "BUILD", "STOP")))
    out.append(("ext1", asm(("EXT1", 1), "STOP")))
    out.append(("stacked", pickle.dumps(_Sys(), 2) + pickle.dumps(_Eval(), 0) + pickle.dumps([1], 4)))
    return out


REPL = [0x00, 0xFF, ord("R"), ord("c"), ord("o"), ord("i"), 0x93, 0x81, 0x92, ord("b"), ord("Q"), ord("."), ord("("), ord("0")]


def corruptions(data):
    for n in range(len(data)):
        yield (f"prefix[{n}]", data[:n])
    for i in range(len(data)):
        for r in REPL + [data[i] ^ 1]:
            if r != data[i]:
                yield (f"byte[{i}]={r:#x}", data[:i] + bytes([r]) + data[i + 1:])


def _nat(item):
    tag, data = item
    out = e1.Out()
    out.stats.inc("natural_and_corrupted_inputs")
    inspect(data, out, tag, len(data))
    return out


def _big(item):
    """A large input delivered through non-seekable streams (library and CLI stdin): nothing may be written anywhere."""
    import fickling.fickle as fk
    from fickling import cli
    from fickling.analysis import check_safety

    from .c06 import RawNonSeekable

    (size,) = item
    out = e1.Out()
    data = pickle.dumps(b"x" * size, protocol=4)
    thunks = {
        "Pickled.load(non-seekable)": lambda: fk.Pickled.load(RawNonSeekable(data)),
        "StackedPickle.load(non-seekable)": lambda: fk.StackedPickle.load(io.BufferedReader(RawNonSeekable(data))),
        "check_safety(non-seekable)": lambda: check_safety(fk.Pickled.load(RawNonSeekable(data))),
    }

    class _In:
        def __init__(self):
            self.buffer = io.BufferedReader(RawNonSeekable(data))

    def via_cli():
        old = sys.stdin
        sys.stdin = _In()
        try:
            with redirect_stdout(io.StringIO()), redirect_stderr(io.StringIO()):
                path, report = scratch_file()
                MONITOR.allowed_write = {report}
                cwd = os.getcwd()
                os.chdir(_WD[0])
                try:
                    return cli.main(["fickling", "--check-safety", "--json-output", report])
                finally:
                    os.chdir(cwd)
        finally:
            sys.stdin = old

    thunks["cli-check-safety(stdin)"] = via_cli
    for name, th in thunks.items():
        outcome, events, newmods = MONITOR.run(th)
        out.stats.inc("entry_point_calls")
        for ev in events:
            out.violate(PROP, f"C01|{name}|{ev[0]}", f"{name} on a {size}-byte input: forbidden effect {ev} (call {outcome})",
                        {"engine": "E4", "entry_point": name, "input": f"{size}-byte bytes pickle"}, 1)
    return out


def warm_up():
    """Benign inputs through every entry point first, so lazy standard-library imports are done."""
    for v in ([1, 2], {"a": b"x", "b": "é"}, {1, 2}, frozenset([1]), 1.5, "s"):
        for p in (0, 2, 4):
            o = e1.Out()
            data = pickle.dumps(v, protocol=p)
            for name, thunk in entry_points(data).items():
                try:
                    thunk()
                except BaseException:  # noqa: BLE001
                    pass
    for data in (b"", b"\x80", b"garbage", asm(("GLOBAL", ("collections", "OrderedDict")), "EMPTY_TUPLE", "REDUCE", "STOP"),
                 asm(("UNICODE", "é\\u20ac"), "STOP"), asm(("STRING", "x"), "STOP")):
        for name, thunk in entry_points(data).items():
            try:
                thunk()
            except BaseException:  # noqa: BLE001
                pass
    path, report = scratch_file()
    for f in (report,):
        if os.path.exists(f):
            os.remove(f)


def check(tier):
    rep = Report(PROP, tier)
    for m in ("vp_sink", "vp_objs", "vp_canary_mod", "vp_canary_pkg"):
        assert m not in sys.modules, f"{m} must not be imported by the harness of this check"
    with e3.Scratch("c01") as wd:
        _WD[0] = wd
        os.environ["VP_CANARY_MARKER"] = os.path.join(wd, "CANARY")
        import vp_live  # noqa: F401 - deliberately loaded: see fixtures/vp_live.py

        MONITOR.install()
        warm_up()
        depth = 5 if tier == "thorough" else 4
        cfg = e1.Config(PROP, sigma(tier), depth, [], [inert_oracle], split=2, want_states=True)
        e1.run(cfg, rep)
        nat = natural(tier)
        quick_seeds = ("_Sys/proto0", "_Sys/proto2", "_Sys/proto4", "_Eval/proto2", "_Exec/proto4", "canary-global", "canary-sub-sg",
                       "canary-inst", "sink-obj", "codec-name/proto2", "marshal-loads/proto2", "live-inst", "live-obj")
        seeds = nat if tier == "thorough" else [x for x in nat if x[0] in quick_seeds]
        items = list(nat)
        nseeds = 0
        for tag, data in seeds:
            if len(data) > 200 and tier != "thorough":
                continue
            nseeds += 1
            items += [(f"{tag}:{c}", d) for c, d in corruptions(data)]
        e3.pmap(_nat, items, rep, chunksize=32)
        e3.pmap(_big, [(5 * 1024 * 1024,), (4 * 1024 * 1024 + 100,), (70000,)], rep, chunksize=1)
        rep.set("corruption_seeds", nseeds)
    rep.add("evaluations", rep.cov.get("entry_point_calls", 0))
    rep.add("traces_validated_against_impl", rep.cov.get("natural_and_corrupted_inputs", 0))
    rep.set("entry_points", ["Pickled.load", "StackedPickle.load", "ast", "unparse", "trace", "check_safety", "summaries", "is_likely_safe",
                             "cli-decompile", "cli-trace", "cli-check-safety", "cli-check-safety-print"])
    rep.set("monitored", "audit events: import of any module named by the input (canaries, sink), exec/compile of non-library code, open for "
                         "writing (except the --json-output report), os.system/exec*/spawn/fork, subprocess.Popen, socket.*, ctypes.*, "
                         "pickle.find_class, marshal.loads, shutil.*, os.remove/rename/mkdir...; sys.modules delta; scratch directory listing; canary marker file")
    rep.assumptions += ["effects are observed through CPython audit events raised in the worker processes after a warm-up pass on benign inputs",
                        "content-triggered codec imports of the standard library are not 'named by the input' and are allowed"]
    return rep.finish()


def replay(path):
    case = json.load(open(path))["case"]
    data = bytes.fromhex(case["bytes"]["hex"])
    with e3.Scratch("c01r") as wd:
        _WD[0] = wd
        MONITOR.install()
        warm_up()
        o = e1.Out()
        inspect(data, o, "replay", 1)
    for sig, lst in o.viol.items():
        print(sig, lst[0][2])
    return 1 if o.viol else 0
