"""C09  Stepping and tracing mirror the real pickle VM opcode by opcode."""
import ast
import json

from .. import e1, refvm
from ..asm import BASE, G, INST, SG, alphabet, asm
from ..common import Report

PROP = "C09"

SIGMA_QUICK = (
    "NONE K1 STR ELIST EDICT ESET ETUP MARK TUPLE T1 T2 T3 LIST DICT FROZENSET APPEND APPENDS SETITEM "
    "SETITEMS ADDITEMS POP POP_MARK DUP MEMOIZE BINPUT1 BINGET0 BINGET1 REDUCE OBJ NEWOBJ BUILD BINPERSID"
).split()
SIGMA_EXTRA = "NEWOBJ_EX STACK_GLOBAL PUT5 GET5 LBPUT LBGET PROTO2".split()


def sigma(tier):
    names = SIGMA_QUICK + (SIGMA_EXTRA if tier == "thorough" else ["NEWOBJ_EX", "STACK_GLOBAL", "PROTO2"])
    return alphabet(names, [G("m", "C"), INST("m", "C")])


def step_invariant(cfg, seq, data, vm, interp, p, out):
    import fickling.fickle as fk

    fstack = list(interp.stack)
    problems = []
    if len(fstack) != vm.depth():
        problems.append(("depth", f"symbolic stack depth {len(fstack)} != VM depth {vm.depth()}"))
    fm = [i for i, x in enumerate(fstack) if isinstance(x, fk.MarkObject)]
    if not problems and fm != vm.mark_positions():
        problems.append(("marks", f"mark positions {fm} != VM {vm.mark_positions()}"))
    if set(interp.memory) != set(vm.memo):
        problems.append(("memo", f"memo keys {sorted(interp.memory)} != VM {sorted(vm.memo)}"))
    for kind, msg in problems:
        last = cfg.alphabet[seq[-1]].label.split("(")[0]
        out.violate(
            PROP,
            f"C09|step|{kind}|{last}",
            f"after {' '.join(cfg.labels(seq))}: {msg}",
            {"engine": "E1", "kind": "step", "program": cfg.labels(seq), "bytes": data},
            len(seq),
        )
    return bool(problems)


def trace_oracle(term, out):
    """Tracing is passive: every opcode once in order, same AST as untraced, bytes untouched."""
    import fickling.fickle as fk
    from fickling.tracing import Trace

    ok, src = term.src
    if not ok:
        out.stats.inc("trace_skipped_undecompilable")
        return
    out.stats.inc("trace_runs")
    p = fk.Pickled.load(term.data)
    before = p.dumps()
    names = [op.name for op in p]
    try:
        tree, printed = e1.capture_stdout(lambda: Trace(fk.Interpreter(p)).run())
    except RecursionError:
        out.stats.inc("trace_recursion_on_cyclic_value")
        return
    except Exception as e:  # noqa: BLE001
        out.violate(PROP, f"C09|trace|raises|{type(e).__name__}",
                    f"Trace.run raised {type(e).__name__}: {e} on a program that decompiles untraced",
                    term.replay(), len(term.seq))
        return
    reported = [ln for ln in printed.split("\n") if ln and not ln.startswith("\t")]
    out.outcomes.add(("trace", tuple(reported)))
    if reported != names:
        out.violate(PROP, "C09|trace|opcode-lines", f"trace printed {reported}, program is {names}",
                    term.replay(), len(term.seq))
    ref = fk.Interpreter(fk.Pickled.load(term.data)).to_ast()
    if e1._canon_ast(tree, {}) != e1._canon_ast(ref, {}):
        out.violate(PROP, "C09|trace|ast-differs", "Trace.run returned a different program than untraced decompilation",
                    term.replay(), len(term.seq))
    # tracing an interpreter that has already run to completion, and tracing the same one twice, return the same program
    try:
        i2 = fk.Interpreter(fk.Pickled.load(term.data))
        first = i2.to_ast()
        again, _printed = e1.capture_stdout(lambda: Trace(i2).run())
        i3 = fk.Interpreter(fk.Pickled.load(term.data))
        t1, _p1 = e1.capture_stdout(lambda: Trace(i3).run())
        t2, _p2 = e1.capture_stdout(lambda: Trace(i3).run())
        want = e1._canon_ast(ref, {})
        if e1._canon_ast(again, {}) != want or e1._canon_ast(first, {}) != want:
            out.violate(PROP, "C09|trace|after-run-differs", "Trace.run on an interpreter that already ran returns a different program",
                        term.replay(), len(term.seq))
        elif e1._canon_ast(t2, {}) != want or e1._canon_ast(t1, {}) != want:
            out.violate(PROP, "C09|trace|second-trace-differs", "tracing the same interpreter twice returns a different program",
                        term.replay(), len(term.seq))
    except RecursionError:
        pass
    # an interpreter configured by the caller (as the CLI does for stacked pickles): the trace returns that interpreter's program
    try:
        ic = fk.Interpreter(fk.Pickled.load(term.data), first_variable_id=3, result_variable="result7")
        tc, _pc = e1.capture_stdout(lambda: Trace(ic).run())
        uc = fk.Interpreter(fk.Pickled.load(term.data), first_variable_id=3, result_variable="result7").to_ast()
        if e1._canon_ast(tc, {}) != e1._canon_ast(uc, {}):
            out.violate(PROP, "C09|trace|configured-interpreter-differs",
                        "Trace.run on an interpreter with its own variable numbering / result name returns a different program than that "
                        "interpreter untraced", term.replay(), len(term.seq))
    except RecursionError:
        pass
    # opcodes after the first STOP are dead code for the VM; traced and untraced decompilation must agree on that too
    try:
        tail = fk.Pickled.load(asm(("BININT1", 7), "STOP"))
        pa, pb = fk.Pickled.load(term.data), fk.Pickled.load(term.data)
        pa.extend(list(tail))
        pb.extend(list(tail))
        ta, _x = e1.capture_stdout(lambda: Trace(fk.Interpreter(pa)).run())
        ua = fk.Interpreter(pb).to_ast()
        if e1._canon_ast(ta, {}) != e1._canon_ast(ua, {}):
            out.violate(PROP, "C09|trace|differs-with-opcodes-after-STOP", "traced and untraced decompilation differ for a program with opcodes after STOP",
                        term.replay(), len(term.seq))
        elif e1._canon_ast(ua, {}) != e1._canon_ast(ref, {}):
            out.violate(PROP, "C09|opcodes-after-STOP-executed", "opcodes after the first STOP change the decompiled program (the VM stops there)",
                        term.replay(), len(term.seq))
    except RecursionError:
        pass
    # a trace attached to a partially stepped interpreter reports exactly the remaining opcodes
    try:
        n = len(names)
        for k in sorted({1, n - 1}):
            if 0 < k < n:
                ik = fk.Interpreter(fk.Pickled.load(term.data))
                for _ in range(k):
                    ik.step()
                _t, pk = e1.capture_stdout(lambda: Trace(ik).run())
                got = [ln for ln in pk.split("\n") if ln and not ln.startswith("\t")]
                if got != names[k:]:
                    out.violate(PROP, "C09|trace|partial-opcode-lines", f"after {k} manual steps the trace printed {got}, remaining program is {names[k:]}",
                                term.replay(), len(term.seq))
                    break
    except RecursionError:
        pass
    if p.dumps() != before or before != term.data:
        out.violate(PROP, "C09|trace|bytes-changed", "tracing changed dumps()", term.replay(), len(term.seq))


def config(tier):
    depth = 5 if tier == "thorough" else 4
    return e1.Config(PROP, sigma(tier), depth, [step_invariant], [trace_oracle], split=2)


def check(tier):
    rep = Report(PROP, tier)
    cfg = config(tier)
    e1.run(cfg, rep)
    # a narrow stack-discipline alphabet two levels deeper (marks, pops, memo traffic, slice opcodes)
    from .c03 import _fold

    rep2 = Report(PROP, tier)
    narrow = alphabet("K1 ELIST EDICT ESET MARK TUPLE LIST DICT FROZENSET APPENDS SETITEMS ADDITEMS POP POP_MARK DUP MEMOIZE BINGET0".split())
    cfg2 = e1.Config(PROP, narrow, cfg.depth + 2, [step_invariant], [trace_oracle], split=2)
    e1.run(cfg2, rep2)
    _fold(rep, rep2, "narrow")
    from . import c09_corpus

    c09_corpus.run(rep, tier)
    # deviation 1 around natural pickles: every prefix of every variant stepped on both machines
    from .. import corpus, deviate
    from .c03 import deviation_bases

    dsyms = alphabet("NONE K1 STR ELIST EDICT ESET ETUP MARK TUPLE T2 LIST DICT FROZENSET APPEND APPENDS SETITEM SETITEMS ADDITEMS POP "
                     "POP_MARK DUP MEMOIZE BINPUT1 BINGET0 BINGET1 REDUCE NEWOBJ OBJ BUILD BINPERSID".split())
    plain = [(f"plain[{i}]/{t}", b) for i, v in enumerate(corpus.plain_values("quick")[30::29 if tier == "quick" else 7])
             for t, b in corpus.pickles_of(v, protocols=(0, 2, 4), unframed=False) if len(b) < 300]
    deviate.run(PROP, deviation_bases(tier) + plain, dsyms, [(c09_corpus, "step_oracle")], rep)
    rep.assumptions += [
        "reference = CPython pure-Python pickle._Unpickler stepped one opcode at a time; find_class/persistent_load return inert stubs",
        "mutator opcodes enabled only on naturally typed targets (typing discipline, DESIGN §2/E1)",
        "program space bounded by the alphabet and depth listed in coverage",
    ]
    return rep.finish()


def replay(path):
    """Step the recorded program on both machines, print the table, exit 1 at the first divergence."""
    import fickling.fickle as fk

    case = json.load(open(path))["case"]
    data = bytes.fromhex(case["bytes"]["hex"])
    full = data if case.get("kind") != "step" else data + b"."
    p = fk.Pickled.load(full)
    interp = fk.Interpreter(p)
    vm = refvm.RefVM(full)
    rc = 0
    for k in range(len(p) - 1):
        op = interp.step()
        vm.step()
        marks = [i for i, x in enumerate(interp.stack) if isinstance(x, fk.MarkObject)]
        same = len(interp.stack) == vm.depth() and marks == vm.mark_positions() and set(interp.memory) == set(vm.memo)
        print(f"{k:2d} {op.name:16s} F: depth={len(interp.stack)} marks={marks} memo={sorted(interp.memory)}"
              f" | VM: depth={vm.depth()} marks={vm.mark_positions()} memo={sorted(vm.memo)}{'' if same else '   <-- DIVERGES'}")
        if not same:
            rc = 1
            break
    if rc == 0 and case.get("kind") != "step":
        rc = e1.replay_terminal(PROP, path, [trace_oracle])
    return rc
