"""C12  Hook lifecycle: protection holds while armed and is restored exactly on exit."""
import _pickle
import io
import json
import pickle

# originals saved by the harness *before* fickling is imported
ORIG = {"load": pickle.load, "loads": pickle.loads, "cload": _pickle.load, "cloads": _pickle.loads}

from .. import e2  # noqa: E402
from ..asm import asm, sbu  # noqa: E402
from ..common import Report  # noqa: E402

PROP = "C12"

FLAGGED = asm(("GLOBAL", ("vp_sink", "hit")), sbu("probe"), "TUPLE1", "REDUCE", "STOP")
# resolved only, never called: the static analysis rates it LIKELY_SAFE; the ML allowlist does not list it.  Under
# [activate, arm] a pickle.load goes through the checked loader and then through the ML-hooked pickle.loads: both
# protections in force must hold
BENIGN_UNLISTED = asm(("GLOBAL", ("decimal", "Decimal")), "STOP")
EXTRA = ("vp_sink.other",)

OPS = ("arm", "activate()", "activate(x)", "remove", "construct", "enter", "leave", "leave_exc", "probe_load", "probe_loads", "probe_load_benign",
       # a context that accepts every verdict: what a load does while it is the innermost protection of pickle.load carries no
       # expectation (the pinned tree ignores the context's threshold, a tree that honours it executes the probe by design);
       # what is demanded is that nothing of it is left once it has been exited
       "enter_permissive")
SLOTS = ("load", "loads", "cload", "cloads")


def get_bindings():
    return {"load": pickle.load, "loads": pickle.loads, "cload": _pickle.load, "cloads": _pickle.loads}


def classify(fn):
    import fickling.loader as loader

    if fn is ORIG["load"] or fn is ORIG["cload"]:
        return "ORIG-load"
    if fn is ORIG["loads"] or fn is ORIG["cloads"]:
        return "ORIG-loads"
    if fn is loader.load:
        return "CHECKED"
    clo = getattr(fn, "__closure__", None)
    if clo and getattr(fn, "__name__", "") in ("new_load", "new_loads"):
        names = fn.__code__.co_freevars
        cells = dict(zip(names, clo))
        if "also_allow" in cells:
            a = cells["also_allow"].cell_contents
            return f"ML{tuple(a) if a else ()}-{fn.__name__[4:]}"
    return behavioural_class(fn)


_IMPORT_ONLY = asm(("GLOBAL", ("vp_sink", "other")), "STOP")


def behavioural_class(fn):
    """Classify a binding the structural rules do not recognise (e.g. after a refactoring of the hooks) by what it does
    with two probe pickles; load-like functions take a stream, loads-like functions take bytes."""
    import vp_sink
    from fickling.exception import UnsafeFileError

    def call(data):
        vp_sink.reset()
        try:
            try:
                fn(io.BytesIO(data))
                kind = "load"
            except TypeError:
                fn(data)
                kind = "loads"
            return kind, "returned", None
        except UnsafeFileError as e:
            return None, "unsafe", e
        except Exception as e:  # noqa: BLE001
            return None, "raised", e
        finally:
            pass

    kind, how, exc = call(FLAGGED)
    executed = bool(vp_sink.LOG)
    vp_sink.reset()
    if kind is None:
        # find out which calling convention it has
        try:
            fn(io.BytesIO(b"N."))
            kind = "load"
        except Exception:  # noqa: BLE001
            kind = "loads"
    if executed or how == "returned":
        return f"ORIG-{kind}"
    if how == "unsafe" and isinstance(getattr(exc, "info", None), dict):
        return "CHECKED"
    if how == "unsafe":
        _k, how2, _e = call(_IMPORT_ONLY)
        vp_sink.reset()
        adds = tuple(EXTRA) if how2 == "returned" else ()
        return f"ML{adds}-{kind}"
    return f"UNKNOWN({getattr(fn, '__qualname__', fn)!r}:{how})"


def expected(sym, slot):
    """Class string the model symbol should have in this slot."""
    kind = "load" if slot in ("load", "cload") else "loads"
    if sym == "ORIG":
        return f"ORIG-{kind}"
    if sym == "CHECKED":
        return "CHECKED"
    return f"{sym}-{kind}"  # ML(...)


class Lifecycle(e2.System):
    ops = OPS

    def __init__(self, max_ctx=3):
        import fickling.context
        import fickling.hook
        import fickling.loader
        import fickling.ml

        self.max_ctx = max_ctx
        # own every piece of module-level state the operations could touch
        self.mstate = e2.ModuleState([fickling.hook, fickling.context, fickling.loader, fickling.ml])

    def fresh(self):
        import vp_sink

        self.mstate.restore()

        pickle.load, pickle.loads = ORIG["load"], ORIG["loads"]
        _pickle.load, _pickle.loads = ORIG["cload"], ORIG["cloads"]
        vp_sink.reset()
        ctx = {"cms": [], "pending": None}
        model = (("ORIG", "ORIG", "ORIG", "ORIG"), ())
        return ctx, model

    def enabled(self, ctx, model, op):
        if op in ("leave", "leave_exc"):
            return bool(ctx["cms"])
        if op in ("enter", "enter_permissive"):
            return len(ctx["cms"]) < self.max_ctx
        if op == "construct":
            return ctx["pending"] is None
        return True

    def apply(self, ctx, model, op):
        import fickling
        import fickling.hook as hook
        import vp_sink
        from fickling.exception import UnsafeFileError

        b, stack = model
        obs = None
        if op == "arm":
            fickling.always_check_safety()
            b = ("CHECKED",) + b[1:]
        elif op == "activate()":
            hook.activate_safe_ml_environment()
            b = ("ML()",) * 4
        elif op == "activate(x)":
            hook.activate_safe_ml_environment(also_allow=list(EXTRA))
            b = (f"ML{tuple(EXTRA)}",) * 4
        elif op == "remove":
            hook.remove_hook()
            b = ("ORIG",) * 4
        elif op == "construct":
            # a context manager object created now and entered later must snapshot at entry, not here
            ctx["pending"] = fickling.check_safety()
        elif op == "enter":
            cm = ctx["pending"] or fickling.check_safety()
            ctx["pending"] = None
            cm.__enter__()
            ctx["cms"].append(cm)
            stack = stack + (b,)
            b = ("CHECKED",) + b[1:]
        elif op == "enter_permissive":
            from fickling.analysis import Severity
            from fickling.context import FicklingContextManager

            cm = FicklingContextManager(max_acceptable_severity=Severity.OVERTLY_MALICIOUS)
            cm.__enter__()
            ctx["cms"].append(cm)
            stack = stack + (b,)
            b = ("CHECKED*",) + b[1:]
        elif op in ("leave", "leave_exc"):
            cm = ctx["cms"].pop()
            if op == "leave":
                ret = cm.__exit__(None, None, None)
            else:
                e = ValueError("boom")
                ret = cm.__exit__(ValueError, e, None)
            obs = ("exit-returned", bool(ret))
            b = stack[-1]
            stack = stack[:-1]
        elif op in ("probe_load", "probe_loads", "probe_load_benign"):
            vp_sink.reset()
            try:
                if op == "probe_load_benign":
                    pickle.load(io.BytesIO(BENIGN_UNLISTED))
                elif op == "probe_load":
                    pickle.load(io.BytesIO(FLAGGED))
                else:
                    pickle.loads(FLAGGED)
                out = "returned"
            except UnsafeFileError:
                out = "UnsafeFileError"
            except Exception as e:  # noqa: BLE001
                out = f"raised {type(e).__name__}"
            obs = ("probe", out, len(vp_sink.LOG))
            vp_sink.reset()
        return (b, stack), obs

    def check(self, ctx, model, op, obs):
        b, stack = model
        probs = []
        real = get_bindings()
        for sym, slot in zip(b, SLOTS):
            if sym == "CHECKED*":
                continue
            got = classify(real[slot])
            want = expected(sym, slot)
            if got != want:
                probs.append((f"C12|binding|{op}|{slot}", f"after {op}: pickle binding {slot} is {got}, lifecycle model says {want}"))
        if obs and obs[0] == "exit-returned" and obs[1]:
            probs.append((f"C12|exit-swallows|{op}", "__exit__ returned a truthy value (would swallow the exception)"))
        if obs and obs[0] == "probe" and b[0] == "CHECKED*" and op != "probe_loads":
            pass
        elif obs and obs[0] == "probe" and op == "probe_load_benign":
            # CHECKED hands the analysed bytes to whatever pickle.loads is at that moment
            eff = b[1] if b[0] == "CHECKED" else b[0]
            want = "UnsafeFileError" if eff.startswith("ML") else "returned"
            if obs[1] != want:
                probs.append((f"C12|benign-unlisted|{b[0].split('(')[0]}+{b[1].split('(')[0]}",
                              f"pickle.load of a pickle that only resolves decimal.Decimal, with load={b[0]} and loads={b[1]}: outcome {obs[1]}, "
                              f"expected {want}"))
        elif obs and obs[0] == "probe":
            slot = 0 if op == "probe_load" else 1
            sym = b[slot]
            protected = sym != "ORIG" and not (sym == "CHECKED" and False)
            if protected:
                if obs[2] != 0:
                    probs.append((f"C12|executed-while-protected|{op}|{sym.split('(')[0]}",
                                  f"{op} executed the flagged pickle although the model says the entry point is {sym}"))
                elif obs[1] != "UnsafeFileError":
                    probs.append((f"C12|no-unsafe-error|{op}|{sym.split('(')[0]}",
                                  f"{op} under {sym}: outcome {obs[1]} instead of UnsafeFileError"))
        return probs

    def key(self, ctx, model):
        real = get_bindings()
        return (model, tuple(classify(real[s]) for s in SLOTS),
                tuple(_cmkey(cm) for cm in ctx["cms"]), _cmkey(ctx["pending"]) if ctx["pending"] else None)

    def cleanup(self, ctx):
        pickle.load, pickle.loads = ORIG["load"], ORIG["loads"]
        _pickle.load, _pickle.loads = ORIG["cload"], ORIG["cloads"]


def _cmkey(cm):
    out = []
    for k, v in sorted(vars(cm).items()):
        if callable(v):
            out.append((k, classify(v)))
        elif isinstance(v, tuple) and all(callable(x) for x in v):
            out.append((k, tuple(classify(x) for x in v)))
    return tuple(out)


def check(tier):
    rep = Report(PROP, tier)
    depth = 8 if tier == "thorough" else 7
    sysm = Lifecycle()
    try:
        e2.explore(sysm, depth - 2, rep, PROP, merge=False)
        rep.set("unmerged_histories", rep.cov.get("transitions", 0))
        e2.explore(sysm, depth, rep, PROP)
    finally:
        sysm.cleanup(None)
    rep.set("ops", list(OPS))
    rep.set("depth_bound", depth)
    rep.set("max_open_contexts", 3)
    rep.set("rule", "BFS over all histories of the listed ops up to depth_bound; states merged on (model state, classified real "
                    "bindings, saved bindings of open context managers); every transition replayed on the real process globals")
    rep.assumptions += [
        "lifecycle model: arm => load:=CHECKED; activate(A) => all four := ML(A); remove => all four := ORIG; enter => push snapshot, "
        "load:=CHECKED; leave => all four := pop()",
        "the global check documents that it covers pickle.load only: loads under CHECKED-only carries no expectation",
        "enter = __enter__ of the pending context manager if one was constructed earlier, else construct + __enter__",
    ]
    return rep.finish()


def replay(path):
    case = json.load(open(path))["case"]
    sysm = Lifecycle()
    ctx, model = sysm.fresh()
    rc = 0
    for op in case["history"]:
        model, obs = sysm.apply(ctx, model, op)
        real = get_bindings()
        print(f"{op:14s} real={[classify(real[s]) for s in SLOTS]} model={model[0]} obs={obs}")
        for sig, d in sysm.check(ctx, model, op, obs):
            print("   MISMATCH", sig, d)
            rc = 1
    sysm.cleanup(ctx)
    return rc
