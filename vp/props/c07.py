"""C07  Safe ML environment mediates every global, including in nested unpicklings."""
import _pickle
import io
import itertools
import json
import pickle

ORIG = {"load": pickle.load, "loads": pickle.loads, "cload": _pickle.load, "cloads": _pickle.loads}

from .. import e1, e3  # noqa: E402
from ..asm import asm  # noqa: E402
from ..common import Report  # noqa: E402
from . import c08  # noqa: E402

PROP = "C07"

LOADERS = {"torch._load_from_bytes": ("torch.storage", "_load_from_bytes"), "pickle.loads": ("pickle", "loads"),
           "_pickle.loads": ("_pickle", "loads"),
           # the nested payload handed over as a bytearray (BYTEARRAY8) instead of bytes
           "pickle.loads/bytearray": ("pickle", "loads", "bytearray")}
CONTAINERS = ("bare", "legacy", "zip")
LEAVES = {"allowed": ("collections", "OrderedDict"), "nonstd": ("vp_sink", "hit"), "stdlib-unlisted": ("posix", "getpid"),
          # a dotted qualified name (protocol 4 attribute walk) that starts with an allow-listed name
          "dotted-off-allowed": ("collections", "OrderedDict.fromkeys"),
          # resolved through INST (no GLOBAL / STACK_GLOBAL opcode in the pickle)
          "nonstd-inst": ("vp_sink", "hit", "INST"),
          # a non-listed member of a module that has other allow-listed members
          "unlisted-member-of-listed-module": ("collections", "Counter"),
          # only resolved, never called: fickling's static analysis rates this LIKELY_SAFE, the allowlist does not list it
          "benign-unlisted-import-only": ("decimal", "Decimal", "IMPORT"),
          # allow-listed, but its package is not installed in this image: the load fails inside the allowed resolution
          "allowlisted-absent": ("transformers.training_args", "TrainingArguments", "IMPORT")}
ADDITIONS = {"none": (), "loads": ("pickle.loads", "_pickle.loads"), "sink": ("vp_sink.hit",),
             # a name of which the sink's name is a substring, in a module the built-in list does not have
             "superstring": ("vp_sink.hit_and_more",),
             "all": ("pickle.loads", "_pickle.loads", "vp_sink.hit")}
ENTRIES = ("pickle.load", "pickle.loads", "_pickle.load", "_pickle.loads",
           # bytes-like arguments other than bytes
           "pickle.loads(bytearray)", "_pickle.loads(memoryview)",
           # fickling's static-analysis hook layered on top of the active ML environment (global hook / context manager)
           "pickle.load+always_check_safety", "pickle.load+context")
LAYERED = ("pickle.load+always_check_safety", "pickle.load+context")


_FOLLOW_UP = asm(("GLOBAL", ("vp_sink", "hit")), "EMPTY_TUPLE", "REDUCE", "STOP")


_BASE = []


def pristine_base():
    """The built-in allowlist as it is before any activation in this process tree (taken once, in the parent, before the
    workers fork): a defect that lets additions leak into ML_ALLOWLIST must not move the oracle with it."""
    if not _BASE:
        import fickling.ml as ml

        _BASE.append(frozenset((m, n) for m, names in ml.ML_ALLOWLIST.items() for n in names))
    return _BASE[0]


def restore():
    pickle.load, pickle.loads = ORIG["load"], ORIG["loads"]
    _pickle.load, _pickle.loads = ORIG["cload"], ORIG["cloads"]


class _Carrier:
    """Pickles (with the stock pickler, inside torch.save) to exactly `GLOBAL m n; args; REDUCE`."""

    def __init__(self, fn, args):
        self.fn, self.args = fn, args

    def __reduce__(self):
        return (self.fn, self.args)


def resolve(m, n):
    import importlib

    obj = importlib.import_module(m)
    for part in n.split("."):
        obj = getattr(obj, part)
    return obj


def wrap(container, inner_global, inner_args):
    """Serialise 'call inner_global(*inner_args)' in the given container format."""
    import torch

    as_bytearray = len(inner_global) == 3 and inner_global[2] == "bytearray"
    if as_bytearray:
        if container != "bare":
            raise ValueError("bytearray payload only in a bare pickle")
        return asm(("PROTO", 5), ("GLOBAL", inner_global[:2]), ("BYTEARRAY8", inner_args[0]), "TUPLE1", "REDUCE", "STOP")
    if len(inner_global) == 3 and inner_global[2] == "IMPORT":
        if container != "bare":
            raise ValueError("import-only leaf only as a bare pickle")
        return asm(("GLOBAL", inner_global[:2]), "STOP")
    if len(inner_global) == 3:
        if container != "bare":
            raise ValueError("INST leaf only as a bare pickle")
        return asm("MARK", ("INST", inner_global[:2]), "STOP")
    if container == "bare" and "." in inner_global[1]:
        from ..asm import sbu

        body = [sbu(inner_global[0]), sbu(inner_global[1]), "STACK_GLOBAL"] + (["EMPTY_LIST", "TUPLE1"] if not inner_args else
                                                                              [("BINBYTES", inner_args[0]), "TUPLE1"])
        return asm(("PROTO", 4), *body, "REDUCE", "STOP")
    if container == "bare":
        body = [("GLOBAL", inner_global)]
        if inner_args:
            body += [("BINBYTES", inner_args[0]), "TUPLE1"]
        else:
            body += ["EMPTY_TUPLE"]
        return asm(("PROTO", 2), *body, "REDUCE", "STOP")
    obj = _Carrier(resolve(*inner_global), tuple(inner_args))
    buf = io.BytesIO()
    torch.save(obj, buf, _use_new_zipfile_serialization=(container == "zip"))
    return buf.getvalue()


def build(tree, leaf):
    """tree: tuple of (loader, container) from outermost to innermost; the innermost container holds the leaf."""
    levels = list(tree)
    if not levels:
        return wrap("bare", LEAVES[leaf], ())
    # innermost payload: the leaf serialised in the innermost level's container
    data = wrap(levels[-1][1], LEAVES[leaf], ())
    # walk outwards: each level's loader is called on the bytes built so far; that call is serialised in the
    # container of the level above (the outermost call is a bare pickle handed to the entry point)
    for i in range(len(levels) - 1, -1, -1):
        loader = LOADERS[levels[i][0]]
        outer_container = levels[i - 1][1] if i > 0 else "bare"
        data = wrap(outer_container, loader, (data,))
    return data


def run_entry(entry, data):
    if entry == "pickle.load":
        return pickle.load(io.BytesIO(data))
    if entry == "pickle.loads":
        return pickle.loads(data)
    if entry == "_pickle.load":
        return _pickle.load(io.BytesIO(data))
    if entry == "pickle.loads(bytearray)":
        return pickle.loads(bytearray(data))
    if entry == "_pickle.loads(memoryview)":
        return _pickle.loads(memoryview(data))
    if entry == "pickle.load+always_check_safety":
        import fickling.hook as hook

        hook.always_check_safety()
        return pickle.load(io.BytesIO(data))
    if entry == "pickle.load+context":
        import fickling.context as context

        with context.check_safety():
            return pickle.load(io.BytesIO(data))
    return _pickle.loads(data)


def observed(fn):
    import vp_sink

    c08.hook()
    vp_sink.reset()
    del c08._FC[:]
    c08._FC_ON[0] = True
    try:
        try:
            val = fn()
            how = "returned"
        except BaseException as e:  # noqa: BLE001
            val = e
            how = "raised"
    finally:
        c08._FC_ON[0] = False
    log = list(vp_sink.LOG)
    fc = list(c08._FC)
    vp_sink.reset()
    return how, val, log, fc


def chain_has(exc, cls):
    seen = set()
    while exc is not None and id(exc) not in seen:
        if isinstance(exc, cls):
            return True
        seen.add(id(exc))
        exc = exc.__cause__ or exc.__context__
    return False


def _tree(item):
    import warnings

    import fickling.hook as hook
    import fickling.ml as ml
    from fickling.exception import UnsafeFileError

    warnings.simplefilter("ignore")
    tree, leaf = item
    out = e1.Out()
    st = out.stats
    restore()
    try:
        data = build(tree, leaf)
    except Exception as e:  # noqa: BLE001
        st.inc("unbuildable_tree")
        out.outcomes.add(("unbuildable", type(e).__name__))
        return out
    # reference: what an unprotected load resolves (payloads are harmless by construction)
    rhow, rval, rlog, rfc = observed(lambda: ORIG["loads"](data))
    st.inc("reference_runs")
    reached = list(dict.fromkeys(rfc))
    base = pristine_base()
    shape = "/".join(f"{ld}>{ct}" for ld, ct in tree) or "direct"
    for (aname, adds), entry, reactivated in itertools.product(ADDITIONS.items(), ENTRIES, (False, True)):
        allowed = base | {tuple(a.rsplit(".", 1)) for a in adds}
        restore()
        if reactivated:
            # the environment is re-activated with a different addition set without being removed in between: only the
            # additions of the activation in force count
            if entry != "pickle.loads":
                continue
            hook.activate_safe_ml_environment(also_allow=list(ADDITIONS["all"]) + ["collections.Counter", "decimal.Decimal"])
            try:
                pickle.loads(b"N.")  # the earlier activation is used once
            except Exception:  # noqa: BLE001
                pass
            aname = aname + "(after all)"
        hook.activate_safe_ml_environment(also_allow=list(adds) or None)
        try:
            how, val, log, fc = observed(lambda: run_entry(entry, data))
            # whatever that load did (returned, was refused, failed half way): the environment is still active, so a
            # following load of a non-listed global is refused
            fhow, fval, flog, ffc = observed(lambda: pickle.loads(_FOLLOW_UP))
        finally:
            hook.remove_hook()
            restore()
        if ("vp_sink", "hit") not in allowed and (flog or ("vp_sink", "hit") in ffc or fhow != "raised"):
            out.violate(PROP, f"C07|follow-up-load-unmediated|after-{how}", f"tree {shape} leaf {leaf} via {entry} additions {aname}: after this load "
                        f"({how}{' ' + type(val).__name__ if how == 'raised' else ''}) a following pickle.loads of vp_sink.hit {fhow} "
                        f"(resolved {ffc}, sink calls {len(flog)})",
                        {"engine": "E3", "tree": [list(t) for t in tree], "leaf": leaf, "entry": entry, "additions": list(adds), "bytes": data}, len(tree))
            continue
        st.inc("protected_loads")
        rp = {"engine": "E3", "tree": [list(t) for t in tree], "leaf": leaf, "entry": entry, "additions": list(adds), "bytes": data}
        size = len(tree)
        bad = [g for g in fc if g not in allowed]
        innermost = tree[-1] if tree else ("-", "bare")
        if bad:
            # which level let it through: the loader/container pair just above the first unmediated global
            via = _via(tree, rfc, bad[0])
            out.violate(PROP, f"C07|unmediated-global|via={via[0]}|container={via[1]}",
                        f"tree {shape} leaf {leaf} via {entry} additions {aname}: {bad[0][0]}.{bad[0][1]} was resolved although it is not allowed "
                        f"(sink calls: {len(log)})", rp, size)
            continue
        if log and ("vp_sink", "hit") not in allowed:
            out.violate(PROP, "C07|sink-executed", f"tree {shape} leaf {leaf} via {entry} additions {aname}: sink executed", rp, size)
            continue
        outside = [g for g in reached if g not in allowed]
        if outside:
            if entry in LAYERED and how == "raised":
                st.inc("blocked")  # by either layer; which exception the static layer uses is not this property's business
            elif how != "raised" or not chain_has(val, UnsafeFileError):
                out.violate(PROP, f"C07|no-unsafe-error|{how}", f"tree {shape} leaf {leaf} via {entry} additions {aname}: reference load reaches "
                            f"{outside[0]} (not allowed) but the protected load {how} {type(val).__name__ if how == 'raised' else ''}", rp, size)
            else:
                st.inc("blocked")
        else:
            if entry in LAYERED:
                st.inc("allowed_through_or_refused_by_static_layer")  # the static layer may refuse on its own grounds
            elif rhow == "returned" and how != "returned":
                out.violate(PROP, f"C07|allowed-load-fails|{type(val).__name__}", f"tree {shape} leaf {leaf} via {entry} additions {aname}: every global is "
                            f"allowed but the load raised {type(val).__name__}: {val}", rp, size)
            else:
                st.inc("allowed_through")
    out.outcomes.add((shape, leaf, rhow, tuple(reached)))
    return out


def _via(tree, rfc, g):
    """The (loader, container) level whose payload contains g: count loader globals resolved before g."""
    loaders = {v[:2]: k for k, v in LOADERS.items()}
    depth = 0
    for x in rfc:
        if x == g:
            break
        if x in loaders:
            depth += 1
    if depth == 0 or depth > len(tree):
        return ("direct", "bare")
    return tree[depth - 1]


def _stream_reuse(item):
    """One stream holding two pickles, read by two loads with a re-activation (other additions) in between: the second load
    is mediated by the activation in force when it is made."""
    import warnings

    import fickling.hook as hook
    from fickling.exception import UnsafeFileError

    warnings.simplefilter("ignore")
    entry, first_adds, second_adds, removed_between = item
    out = e1.Out()
    restore()
    fn = {"pickle.load": lambda s: pickle.load(s), "_pickle.load": lambda s: _pickle.load(s)}[entry]
    stream = io.BytesIO(b"N." + _FOLLOW_UP)
    hook.activate_safe_ml_environment(also_allow=list(first_adds) or None)
    try:
        fn(stream)
        if removed_between:
            hook.remove_hook()
            restore()
        hook.activate_safe_ml_environment(also_allow=list(second_adds) or None)
        how, val, log, fc = observed(lambda: fn(stream))
    finally:
        hook.remove_hook()
        restore()
    out.stats.inc("stream_reuse_loads")
    allowed_now = ("vp_sink.hit" in second_adds)
    if not allowed_now and (log or ("vp_sink", "hit") in fc or how != "raised" or not chain_has(val, UnsafeFileError)):
        out.violate(PROP, f"C07|stream-reused-across-activations|{entry}", f"{entry}: first pickle of a stream loaded under additions {list(first_adds)}, "
                    f"environment re-activated with {list(second_adds)}{' after remove_hook' if removed_between else ''}, second pickle of the same "
                    f"stream names vp_sink.hit: {how} {type(val).__name__ if how == 'raised' else ''}, resolved {fc}, sink calls {len(log)}",
                    {"engine": "E3", "entry": entry, "first": list(first_adds), "second": list(second_adds), "removed_between": removed_between}, 2)
    if allowed_now and how != "returned":
        out.violate(PROP, f"C07|stream-reused-across-activations|allowed-load-fails|{entry}", f"{entry}: second pickle names vp_sink.hit which the "
                    f"activation in force allows, but the load raised {type(val).__name__}", {"engine": "E3", "entry": entry}, 2)
    return out


def check(tier):
    rep = Report(PROP, tier)
    dmax = 3 if tier == "thorough" else 2
    levels = list(itertools.product(LOADERS, CONTAINERS))
    trees = [()]
    for d in range(1, dmax + 1):
        trees += list(itertools.product(levels, repeat=d))
    items = [(t, leaf) for t in trees for leaf in LEAVES]
    pristine_base()
    e3.pmap(_tree, items, rep, chunksize=8)
    reuse = [(e, a, b, r) for e in ("pickle.load", "_pickle.load") for a in (("vp_sink.hit",), ()) for b in ((), ("vp_sink.hit",), ("vp_sink.other",))
             for r in (False, True)]
    e3.pmap(_stream_reuse, reuse, rep, chunksize=2)
    restore()
    n = rep.cov.get("protected_loads", 0)
    e3.finish_counts(rep, len(items) * len(ADDITIONS) * len(ENTRIES), n + rep.cov.get("reference_runs", 0), len(items))
    rep.set("trees", len(trees))
    rep.set("max_depth", dmax)
    rep.set("rule", "payload trees of depth 0..max_depth, each level = (loader callable in {torch.storage._load_from_bytes, pickle.loads, _pickle.loads}) x "
                    "(container in {bare pickle, legacy torch container, zip torch container}), 3 leaf globals, x 4 hooked entry points x 4 addition "
                    "sets; ground truth = globals reached by an unprotected reference load of the same bytes")
    rep.sample({"tree": [["torch._load_from_bytes", "legacy"]], "leaf": "nonstd", "entry": "pickle.loads", "additions": []})
    rep.assumptions += ["payloads are harmless (OrderedDict(), vp_sink.hit(), posix.getpid()) and are really loaded",
                        "pickle.find_class audit events observe every unpickler instance, including torch's own UnpicklerWrapper"]
    return rep.finish()


def replay(path):
    case = json.load(open(path))["case"]
    o = _tree((tuple(tuple(t) for t in case["tree"]), case["leaf"]))
    for sig, lst in o.viol.items():
        print(sig, lst[0][2])
    return 1 if o.viol else 0
