"""C14  Edits through the sequence interface keep every derived view coherent."""
import ast
import json
import multiprocessing as mp
import pickle

from .. import e1, e2
from ..asm import asm, sbu
from ..common import Report, digest, ncpu

PROP = "C14"

BASES = {
    "list-p2": pickle.dumps([1, 2], protocol=2),
    "call-p0": asm(("GLOBAL", ("os", "system")), "MARK", ("STRING", "x"), "TUPLE", "REDUCE", "STOP"),
    "none": asm("NONE", "STOP"),
    "dict-p4": pickle.dumps({"a": 1}, protocol=4),
    "obj-p3": asm(("PROTO", 3), ("GLOBAL", ("collections", "OrderedDict")), "EMPTY_TUPLE", "REDUCE", ("BINPUT", 0), "STOP"),
    "set-p4": pickle.dumps({1}, protocol=4),
    "sg-p4": pickle.dumps(__import__("collections").OrderedDict(), protocol=4),
    "strings": asm(sbu("os"), sbu("system"), "POP", "POP", "NONE", "STOP"),
    # one opcode whose encoding is larger than any plausible I/O buffer, between small ones
    "big-bytes": asm(("PROTO", 3), ("BINBYTES", b"x" * 70000), ("BINPUT", 0), "STOP"),
}


def sym(name):
    import fickling.fickle as fk

    return {
        "NONE": lambda: fk.NoneOpcode(),
        "K1": lambda: fk.BinInt1(1),
        "GLOBAL": lambda: fk.Global.create("os", "system"),
        "REDUCE": lambda: fk.Reduce(),
        "ETUP": lambda: fk.EmptyTuple(),
        "POP": lambda: fk.Pop(),
        "STACK_GLOBAL": lambda: fk.StackGlobal(),
        "PROTO": lambda: fk.Proto.create(3),
        "STR_os": lambda: fk.ShortBinUnicode("os"),
        "STR_system": lambda: fk.ShortBinUnicode("system"),
        "STR_nonstd": lambda: fk.ShortBinUnicode("vp_objs"),
        "GLOBAL_nonstd_OD": lambda: fk.Global.create("vp_objs", "OrderedDict"),
    }[name]()


SIG6 = ("NONE", "K1", "GLOBAL", "REDUCE", "ETUP", "POP")
SIG3 = ("NONE", "GLOBAL", "REDUCE")


def build_ops(tier, full=True):
    ops = []
    if full:
        # opcodes that are NoOp subclasses (STACK_GLOBAL is one, although it emits an import) and constants replacing constants
        for i in (0, 1, 2, -1, "end"):
            ops.append(("insert", i, "STACK_GLOBAL"))
        ops += [("insert", 0, "PROTO"), ("insert", 1, "PROTO"), ("append", "STACK_GLOBAL")]
        for i in (0, 1, 2, 3, 4, -2):
            for o in ("K1", "STR_os", "STR_system"):
                ops.append(("set", i, o))
        ops += [("insert", 0, "STR_os"), ("insert", 1, "STR_system")]
        # the module a called global comes from changes from the standard library to a non-standard one
        for i in (1, 2, 3):
            ops.append(("set", i, "STR_nonstd"))
        ops += [("set", 1, "GLOBAL_nonstd_OD"), ("set", 2, "GLOBAL_nonstd_OD")]
        # a helper that raises after it has already inserted part of its opcodes (unencodable argument)
        ops += [("insert_python_bad",), ("append_python_bad",)]
    for i in (0, 1, -1, "end"):
        for o in SIG6:
            ops.append(("insert", i, o))
    for o in SIG3:
        ops.append(("insert", "last", o))  # the positive index len(p) - 1 (just before the final opcode)
    for i in (0, 1, -2, -1, "last", "last-1"):
        ops.append(("del", i))
    for i in (0, -2):
        for o in SIG3:
            ops.append(("set", i, o))
    ops += [("setslice", 0, 1, ("GLOBAL", "POP")), ("setslice", -2, -1, ()), ("delslice", 0, 2)]
    for o in SIG3:
        ops.append(("append", o))
    ops += [("extend", ("NONE", "REDUCE")), ("pop",), ("pop0",), ("reverse",), ("iadd", ("GLOBAL",)), ("remove_first",),
            ("clear_tail",)]
    ops += [("insert_python", "1+1", True, False), ("insert_python", "1+1", False, False), ("insert_python", "1+1", False, True),
            ("append_python", "2"), ("insert_magic_int", 7), ("insert_python_obj", 0), ("insert_python_obj", -1), ("insert_python_exec", "pass")]
    ops += [("read", "ast"), ("read", "props"), ("read", "sev"), ("read", "dumps"), ("read", "interp")]
    return tuple(ops)


SEQ_OPS = ("insert", "del", "set", "setslice", "delslice", "append", "extend", "pop", "pop0", "reverse", "iadd", "remove_first", "clear_tail")


def seq_edit(t, op, objs):
    """One operation of the mutable-sequence interface, applied identically to a Pickled or to a plain list (the model)."""
    k = op[0]
    if k == "insert":
        i = len(t) if op[1] == "end" else (len(t) - 1 if op[1] == "last" else op[1])
        t.insert(i, objs[0])
    elif k == "del":
        i = op[1]
        if i == "last":
            i = len(t) - 1
        elif i == "last-1":
            i = len(t) - 2
        del t[i]
    elif k == "set":
        t[op[1]] = objs[0]
    elif k == "setslice":
        t[op[1]:op[2]] = list(objs)
    elif k == "delslice":
        del t[op[1]:op[2]]
    elif k == "append":
        t.append(objs[0])
    elif k == "extend":
        t.extend(list(objs))
    elif k == "pop":
        t.pop()
    elif k == "pop0":
        t.pop(0)
    elif k == "reverse":
        t.reverse()
    elif k == "iadd":
        t += list(objs)
    elif k == "remove_first":
        t.remove(t[0])
    elif k == "clear_tail":
        del t[1:]
    return t


def new_objs(op):
    k = op[0]
    if k in ("insert", "set"):
        return [sym(op[2])]
    if k == "append":
        return [sym(op[1])]
    if k == "setslice":
        return [sym(o) for o in op[3]]
    if k in ("extend", "iadd"):
        return [sym(o) for o in op[1]]
    return []


def do_edit(p, op, model=None):
    """Apply op to the Pickled (and, for sequence operations, to the reference list). Returns the updated model."""
    k = op[0]
    if k in SEQ_OPS:
        objs = new_objs(op)
        err_m = None
        if model is not None:
            try:
                model = seq_edit(model, op, objs)
            except Exception as e:  # noqa: BLE001
                err_m = type(e).__name__
        try:
            seq_edit(p, op, objs)
        except Exception as e:  # noqa: BLE001
            if model is not None and err_m != type(e).__name__:
                raise ModelMismatch(f"{op}: the Pickled raised {type(e).__name__}, a list raises {err_m}")
            raise
        if model is not None and err_m is not None:
            raise ModelMismatch(f"{op}: a list raises {err_m}, the Pickled accepted the operation")
        return model
    if k == "insert_python":
        p.insert_python(op[1], run_first=op[2], use_output_as_unpickle_result=op[3])
    elif k == "insert_python_exec":
        p.insert_python_exec(op[1])
    elif k == "append_python":
        p.append_python(op[1])
    elif k == "insert_python_bad":
        p.insert_python(("unencodable", object()), module="os", attr="system")
    elif k == "append_python_bad":
        p.append_python(object(), module="os", attr="system")
    elif k == "insert_magic_int":
        p.insert_magic_int(op[1])
    elif k == "insert_python_obj":
        p.insert_python_obj(op[1], [1, "a"])
    elif k == "read":
        if op[1] == "interp":
            # a caller's own interpreter run, with its own variable numbering: reads the pickle, must not touch its views
            import fickling.fickle as _fk

            try:
                _fk.Interpreter(p, first_variable_id=7, result_variable="result1").to_ast()
            except RecursionError:
                pass
            except Exception:  # noqa: BLE001
                pass
        elif op[1] == "dumps":
            p.dumps()
            import io as _io

            p.dump(_io.BytesIO())
        else:
            views(p, only=op[1])
        return model
    else:
        raise KeyError(op)
    return list(p)  # the helpers have no list counterpart: the model is re-synchronised


class ModelMismatch(Exception):
    pass


def views(p, only=None):
    from fickling.analysis import check_safety

    out = {}

    def guard(name, fn):
        if only and only != name:
            return
        try:
            out[name] = ("ok", fn())
        except RecursionError:
            out[name] = ("exc", "RecursionError")
        except Exception as e:  # noqa: BLE001
            out[name] = ("exc", type(e).__name__)

    guard("ast", lambda: e1._canon_ast(p.ast, {}))
    guard("props", lambda: (p.has_import, p.has_call, p.has_non_setstate_call,
                            tuple(ast.unparse(n) for n in p.properties.imports), len(p.properties.calls),
                            tuple(sorted(p.properties.likely_safe_imports)),
                            tuple(ast.unparse(n) for n in p.unsafe_imports()),
                            tuple(ast.unparse(n) for n in p.non_standard_imports())))
    guard("sev", lambda: (lambda r: (r.severity.name, frozenset((x.analysis_name, x.message) for x in r.results)))(check_safety(p)))
    if not only:
        guard("dumps", lambda: p.dumps())

        def _dump():
            import io as _io

            b = _io.BytesIO()
            p.dump(b)
            return b.getvalue()

        guard("dump", _dump)
    return out


class Edits(e2.System):
    def __init__(self, base, ops):
        self.base = base
        self.ops = ops

    def fresh(self):
        import fickling.fickle as fk

        p = fk.Pickled.load(self.base)
        return {"p": p, "model": list(p)}, None

    def apply(self, ctx, model, op):
        try:
            ctx["model"] = do_edit(ctx["p"], op, ctx["model"])
            obs = None
        except ModelMismatch as e:
            obs = ("model-mismatch", str(e))
            ctx["model"] = list(ctx["p"])
        except RecursionError:
            obs = ("raised", "RecursionError")
            if op[0] not in SEQ_OPS:
                ctx["model"] = list(ctx["p"])
        except Exception as e:  # noqa: BLE001
            obs = ("raised", type(e).__name__)
            if op[0] not in SEQ_OPS:
                ctx["model"] = list(ctx["p"])  # a helper that fails half way has no list counterpart either
        return model, obs

    def check(self, ctx, model, op, obs):
        import fickling.fickle as fk

        p = ctx["p"]
        ops = list(p)
        pre = []
        if obs and obs[0] == "model-mismatch":
            pre.append((f"C14|sequence-semantics|{op[0]}", obs[1]))
        elif [id(o) for o in ops] != [id(o) for o in ctx["model"]]:
            pre.append((f"C14|sequence-semantics|{op[0]}", f"after {op} the opcode sequence differs from what the same operation does to a list "
                        f"({len(ops)} vs {len(ctx['model'])} opcodes)"))
            ctx["model"] = list(p)
        try:
            want_dumps = ("ok", b"".join(o.data for o in ops))
        except Exception as e:  # noqa: BLE001
            want_dumps = ("exc", type(e).__name__)
        fresh = fk.Pickled(ops)
        a, b = views(p), views(fresh)
        probs = list(pre)
        kind = op[0] if op[0] != "read" else f"read-{op[1]}"
        for name in ("ast", "props", "sev", "dumps"):
            if a[name] != b[name]:
                probs.append((f"C14|stale-{name}|after-{kind}",
                              f"view {name} of the edited object differs from a fresh Pickled with the same opcodes "
                              f"({repr(a[name])[:120]} vs {repr(b[name])[:120]})"))
        if a["dump"] != a["dumps"]:
            probs.append((f"C14|dump-vs-dumps|after-{kind}", "dump(file) writes other bytes than dumps() returns"))
        if a["dumps"] != want_dumps:
            probs.append((f"C14|dumps-not-concat|after-{kind}", "dumps() is not the concatenation of the opcodes' encodings"))
        if len(p) != len(ops):
            probs.append((f"C14|len|after-{kind}", "len() disagrees with iteration"))
        return probs

    def key(self, ctx, model):
        p = ctx["p"]
        try:
            enc = tuple(o.data for o in p)
        except Exception:  # noqa: BLE001
            enc = tuple(type(o).__name__ + repr(o.arg) for o in p)
        cached_ast = getattr(p, "_ast", None)
        ca = None if cached_ast is None else digest(e1._canon_ast(cached_ast, {}))
        cp = None
        if getattr(p, "_properties", None) is not None:
            pr = p._properties
            try:
                cp = digest((tuple(e1._canon_ast(n, {}) for n in pr.imports), len(pr.calls), len(pr.non_setstate_calls),
                             tuple(sorted(map(repr, pr.likely_safe_imports)))))
            except Exception as e:  # noqa: BLE001
                cp = ("unhashable-properties", type(e).__name__, len(pr.imports), len(pr.calls))
        extra = tuple(sorted((k, digest(repr(v)[:2000])) for k, v in vars(p).items()
                             if k not in ("_opcodes", "_ast", "_properties") and not callable(v)))
        return (enc, ca, cp, extra)


def _run_root(args):
    name, tier, depth, root = args[:4]
    rep = Report(PROP, tier)
    try:
        return _run_root_inner(args, rep)
    except Exception as e:  # noqa: BLE001 - unexpected behaviour of the code under test
        rep.violate(f"C14|unexpected-exception|{type(e).__name__}", f"base {name} root {root}: {type(e).__name__}: {e}", {"base": name, "root": repr(root)})
        return name, rep.cov, [(v.astuple()) for lst in rep.violations.values() for v in lst], rep.vcount, rep.samples


def _run_root_inner(args, rep):
    name, tier, depth, root, full = args
    ops = build_ops(tier, full)
    system = Edits(BASES[name], ops)
    if root is None:
        e2.explore(system, 1, rep, PROP)
    else:
        _ctx, _m, probs = e2.replay(system, [root])
        if not probs:  # a violating first step is reported by the depth-1 task and not expanded
            e2.explore(system, depth, rep, PROP, roots=([root],))
    return name, rep.cov, [(v.astuple()) for lst in rep.violations.values() for v in lst], rep.vcount, rep.samples


def check(tier):
    rep = Report(PROP, tier)
    depth = 4 if tier == "thorough" else 3
    names = list(BASES) if tier == "thorough" else ["list-p2", "call-p0", "none", "dict-p4", "sg-p4", "strings", "big-bytes"]
    full_ops, core_ops = build_ops(tier, True), build_ops(tier, False)
    # pass 1: the full operation menu one level shallower; pass 2: the core menu to the full depth
    tasks = [(n, tier, depth - 1, None, True) for n in names] + [(n, tier, depth - 1, op, True) for n in names for op in full_ops]
    deep_names = [n for n in names if n != "big-bytes"] if tier == "quick" else ["list-p2", "call-p0", "dict-p4", "sg-p4"]
    tasks += [(n, tier, depth, op, False) for n in deep_names for op in core_ops]
    from .. import par

    if True:
        for res in par.pmap_unordered(_run_root, tasks, chunksize=1):
            if isinstance(res, par.WorkerDied):
                rep.violate("C14|worker-process-died", f"{res.why} while exploring {repr(res.item)[:300]}", {"item": repr(res.item)[:1000]})
                continue
            name, cov, viol, vcount, samples = res
            for k in ("states", "transitions", "traces_validated_against_impl", "evaluations", "distinct_nontrivial"):
                rep.add(k, cov.get(k, 0))
            rep.add(f"base_{name}_states", cov.get("states", 0))
            rep.merge_violations(viol)
            for s_, c in vcount.items():
                rep.vcount[s_] = max(rep.vcount.get(s_, 0), c)
            for s_ in samples[:1]:
                rep.sample({"base": name, **s_})
    rep.set("ops_full", len(full_ops))
    rep.set("ops_core", len(core_ops))
    rep.set("depth_bound_full_menu", depth - 1)
    rep.set("depth_bound", depth)
    rep.set("bases", names)
    rep.set("rule", "BFS over all histories of the edit/read ops to depth_bound from each base pickle; states merged on (opcode encodings, "
                    "digest of cached AST, digest of cached properties) = the entire state of a Pickled; after every step all views are compared "
                    "with a fresh Pickled(list(p))")
    rep.assumptions += ["a Pickled's state is exactly (_opcodes, _ast, _properties); the key contains all three",
                        "views that raise are compared by exception type"]
    return rep.finish()


def replay(path):
    case = json.load(open(path))["case"]
    hist = [tuple(tuple(x) if isinstance(x, list) else x for x in op) for op in case["history"]]
    print("history:", hist)
    rc = 0
    for name, base in BASES.items():
        s = Edits(base, build_ops("thorough"))
        ctx, model, probs = e2.replay(s, hist)
        print(name, "->", [p[0] for p in probs] or "coherent")
        rc = rc or int(bool(probs))
    return rc
