"""C05(A): plain data at every protocol decompiles, and exec(decompiled) == original object."""
import ast
import multiprocessing as mp
import pickletools

from .. import corpus
from ..common import ncpu

PROP = "C05"


def _key(x):
    """Type-qualified structural rendering (floats by repr, so nan == nan and -0.0 != 0.0)."""
    if isinstance(x, float):
        return ("float", repr(x))
    if isinstance(x, (list, tuple)):
        return (type(x).__name__, tuple(_key(y) for y in x))
    if isinstance(x, (set, frozenset)):
        return (type(x).__name__, tuple(sorted((_key(y) for y in x), key=repr)))
    if isinstance(x, dict):
        return ("dict", tuple(sorted(((_key(k), _key(v)) for k, v in x.items()), key=repr)))
    return (type(x).__name__, x)


def deep_equal(a, b):
    return _key(a) == _key(b)


def registered():
    import fickling.fickle as fk

    return set(fk.OPCODES_BY_NAME)


def _one(item):
    from ..watchdog import Timeout, limit

    try:
        with limit(120):
            return _one_inner(item)
    except (Exception, Timeout) as e:  # noqa: BLE001 - unexpected behaviour of the code under test
        tag, data, idx = item
        return {"viol": [(PROP, f"C05|plain|unexpected-exception|{type(e).__name__}", f"{tag}: {type(e).__name__}: {e}",
                          {"engine": "plain", "tag": tag, "bytes": data}, len(data))], "unsupported": 0, "ok": 0}


def _one_inner(item):
    import fickling.fickle as fk

    tag, data, idx = item
    res = {"viol": [], "unsupported": 0, "ok": 0}
    ops = [i.name for i, _a, _p in pickletools.genops(data)]
    reg = _REG
    if any(o not in reg for o in ops):
        res["unsupported"] = 1
        return res
    replay = {"engine": "plain", "tag": tag, "bytes": data}
    from ..oracles import suspect_from_names

    shape = suspect_from_names(set(ops))
    try:
        src = ast.unparse(fk.Pickled.load(data).ast)
    except Exception as e:  # noqa: BLE001
        res["viol"].append((PROP, f"C05|plain|decompile-fails|{type(e).__name__}|{shape}",
                            f"{tag}: plain data with supported opcodes fails to decompile: {type(e).__name__}: {e}",
                            replay, len(data)))
        return res
    ns = {}
    try:
        exec(compile(src, "<plain>", "exec"), ns)  # plain data: only _codecs.encode and literals
        got = ns["result"]
    except Exception as e:  # noqa: BLE001
        res["viol"].append((PROP, f"C05|plain|exec-fails|{type(e).__name__}|{shape}",
                            f"{tag}: decompiled source does not run: {type(e).__name__}: {e}: {src[:200]!r}", replay, len(data)))
        return res
    want = _VALUES[idx]
    if not deep_equal(got, want):
        res["viol"].append((PROP, f"C05|plain|value-differs|{shape}",
                            f"{tag}: exec(decompiled) = {repr(got)[:150]} but the pickle holds {repr(want)[:150]}",
                            replay, len(data)))
    else:
        res["ok"] = 1
    return res


_REG = None
_VALUES = None


def run(rep, tier):
    global _REG, _VALUES
    _REG = registered()
    _VALUES = corpus.plain_values(tier)
    items = []
    for i, v in enumerate(_VALUES):
        for tag, b in corpus.pickles_of(v):
            items.append((f"plain[{i}]/{tag}", b, i))
    from .. import par

    if True:
        for r in par.pmap_unordered(_one, items, chunksize=64):
            if isinstance(r, par.WorkerDied):
                r = {"viol": [(PROP, "C05|plain|worker-process-died", f"{r.why} while checking {r.item[0]}",
                               {"engine": "plain", "tag": r.item[0], "bytes": r.item[1]}, 0)], "unsupported": 0, "ok": 0}
            rep.add("plain_pickles", 1)
            rep.add("plain_roundtrip_ok", r["ok"])
            rep.add("plain_unsupported_opcode(FLOAT)", r["unsupported"])
            rep.merge_violations(r["viol"])
    rep.add("evaluations", len(items))
    rep.add("traces_validated_against_impl", len(items))
    rep.set("plain_values", len(_VALUES))
