"""C09 on natural pickles: every prefix of every corpus pickle stepped against the reference VM."""
import multiprocessing as mp

from .. import corpus, refvm
from ..common import ncpu

PROP = "C09"


def _one(item):
    from ..watchdog import Timeout, limit

    try:
        with limit(120):
            return _one_inner(item)
    except (Exception, Timeout) as e:  # noqa: BLE001 - unexpected behaviour of the code under test
        tag, data = item
        return {"steps": 0, "refused": 0, "vm_rejected": 0, "pickles": 1,
                "viol": [(PROP, f"C09|unexpected-exception|{type(e).__name__}", f"{tag}: {type(e).__name__}: {e}",
                          {"engine": "corpus", "kind": "full", "tag": tag, "bytes": data}, len(data))]}


def _one_inner(item):
    import fickling.fickle as fk

    tag, data = item
    res = {"steps": 0, "viol": [], "refused": 0, "vm_rejected": 0, "pickles": 1}
    try:
        p = fk.Pickled.load(data)
    except Exception as e:  # noqa: BLE001
        res["refused"] = 1
        return res
    interp = fk.Interpreter(p)
    vm = refvm.RefVM(data)
    names = []
    for k in range(len(p) - 1):
        try:
            vm.step()
        except Exception:  # noqa: BLE001
            res["vm_rejected"] = 1
            return res
        try:
            op = interp.step()
        except Exception:  # noqa: BLE001
            res["refused"] = 1
            return res
        names.append(op.name)
        res["steps"] += 1
        fstack = list(interp.stack)
        marks = [i for i, x in enumerate(fstack) if isinstance(x, fk.MarkObject)]
        msg = None
        if len(fstack) != vm.depth():
            msg = ("depth", f"depth {len(fstack)} != VM {vm.depth()}")
        elif marks != vm.mark_positions():
            msg = ("marks", f"marks {marks} != VM {vm.mark_positions()}")
        elif set(interp.memory) != set(vm.memo):
            msg = ("memo", f"memo keys differ: {sorted(set(interp.memory) ^ set(vm.memo))[:5]}")
        if msg:
            res["viol"].append((PROP, f"C09|step|{msg[0]}|{op.name}",
                                f"natural pickle {tag}: after opcode #{k} {op.name}: {msg[1]}",
                                {"engine": "corpus", "kind": "full", "tag": tag, "bytes": data}, len(data)))
            return res
    return res


def step_oracle(term, out):
    """Terminal-style wrapper: step the whole program on both machines, compare after every opcode."""
    r = _one((term.cfg.labels(term.seq)[0], term.data))
    out.stats.inc("deviation_prefix_steps", r["steps"])
    for v in r["viol"]:
        out.violate(*v)


def run(rep, tier):
    items = []
    for i, v in enumerate(corpus.plain_values(tier)):
        for tag, b in corpus.pickles_of(v):
            items.append((f"plain[{i}]/{tag}", b))
    for i, v in enumerate(corpus.object_values()):
        for tag, b in corpus.pickles_of(v):
            items.append((f"obj[{i}]/{tag}", b))
    from .. import par

    if True:
        for r in par.pmap_unordered(_one, items, chunksize=64):
            if isinstance(r, par.WorkerDied):
                r = {"steps": 0, "refused": 0, "vm_rejected": 0, "pickles": 1,
                     "viol": [(PROP, "C09|worker-process-died", f"{r.why} while stepping {r.item[0]}",
                               {"engine": "corpus", "kind": "full", "tag": r.item[0], "bytes": r.item[1]}, 0)]}
            rep.add("corpus_pickles", r["pickles"])
            rep.add("corpus_prefix_steps", r["steps"])
            rep.add("corpus_refused_by_fickling", r["refused"])
            rep.add("corpus_vm_rejected", r["vm_rejected"])
            rep.merge_violations(r["viol"])
    rep.add("transitions", rep.cov.get("corpus_prefix_steps", 0))
    rep.add("traces_validated_against_impl", rep.cov.get("corpus_prefix_steps", 0))
