"""C09 on natural pickles: every prefix of every corpus pickle stepped against the reference VM."""
import multiprocessing as mp

from .. import corpus, refvm
from ..common import ncpu

PROP = "C09"


def _one(item):
    from ..watchdog import Timeout, limit

    try:
        with limit(120):
            return _one_inner(item)
    except (Exception, Timeout) as e:  # noqa: BLE001 - unexpected behaviour of the code under test
        tag, data = item[:2]
        return {"steps": 0, "refused": 0, "vm_rejected": 0, "pickles": 1,
                "viol": [(PROP, f"C09|unexpected-exception|{type(e).__name__}", f"{tag}: {type(e).__name__}: {e}",
                          {"engine": "corpus", "kind": "full", "tag": tag, "bytes": data}, len(data))]}


def _one_inner(item):
    import fickling.fickle as fk

    tag, data = item[:2]
    oob = item[2] if len(item) > 2 else None  # out-of-band buffers (protocol 5) handed to the reference VM
    res = {"steps": 0, "viol": [], "refused": 0, "vm_rejected": 0, "pickles": 1}
    try:
        p = fk.Pickled.load(data)
    except Exception as e:  # noqa: BLE001
        res["refused"] = 1
        return res
    interp = fk.Interpreter(p)
    import pickle as _pk

    vm = refvm.RefVM(data, buffers=[_pk.PickleBuffer(b) for b in oob] if oob is not None else None)
    names = []
    for k in range(len(p) - 1):
        try:
            vm.step()
        except Exception:  # noqa: BLE001
            res["vm_rejected"] = 1
            return res
        try:
            op = interp.step()
        except Exception:  # noqa: BLE001
            res["refused"] = 1
            return res
        names.append(op.name)
        res["steps"] += 1
        fstack = list(interp.stack)
        marks = [i for i, x in enumerate(fstack) if isinstance(x, fk.MarkObject)]
        msg = None
        if len(fstack) != vm.depth():
            msg = ("depth", f"depth {len(fstack)} != VM {vm.depth()}")
        elif marks != vm.mark_positions():
            msg = ("marks", f"marks {marks} != VM {vm.mark_positions()}")
        elif set(interp.memory) != set(vm.memo):
            msg = ("memo", f"memo keys differ: {sorted(set(interp.memory) ^ set(vm.memo))[:5]}")
        if msg:
            res["viol"].append((PROP, f"C09|step|{msg[0]}|{op.name}",
                                f"natural pickle {tag}: after opcode #{k} {op.name}: {msg[1]}",
                                {"engine": "corpus", "kind": "full", "tag": tag, "bytes": data}, len(data)))
            return res
    return res


def step_oracle(term, out):
    """Terminal-style wrapper: step the whole program on both machines, compare after every opcode."""
    r = _one((term.cfg.labels(term.seq)[0], term.data))
    out.stats.inc("deviation_prefix_steps", r["steps"])
    for v in r["viol"]:
        out.violate(*v)


def oob_items():
    """Protocol-5 pickles written with a buffer_callback: NEXT_BUFFER / READONLY_BUFFER take their data out of band.
    (The pinned tree refuses these opcodes; the items matter as soon as a tree models them.)"""
    import pickle

    ro, rw = (lambda b: pickle.PickleBuffer(bytes(b))), (lambda b: pickle.PickleBuffer(bytearray(b)))
    values = {
        "ro": lambda: ro(b"abc"), "rw": lambda: rw(b"abc"),
        "list": lambda: [ro(b"ab"), 1, rw(b"cd"), ro(b"ef")],
        "tuple-top": lambda: (ro(b"ab"), ro(b"cd")),
        "dict": lambda: {"a": ro(b"x"), "b": [rw(b"y"), ro(b"z")]},
        "ro-then-mark": lambda: (ro(b"ab"), [1, 2], {"k": ro(b"q")}),
    }
    out = []
    for name, mk in values.items():
        bufs = []
        data = pickle.dumps(mk(), protocol=5, buffer_callback=bufs.append)
        out.append((f"oob/{name}", data, [bytes(b.raw()) if b.raw().readonly else bytearray(b.raw()) for b in bufs]))
    return out


def run(rep, tier):
    items = []
    for i, v in enumerate(corpus.plain_values(tier)):
        for tag, b in corpus.pickles_of(v):
            items.append((f"plain[{i}]/{tag}", b))
    for i, v in enumerate(corpus.object_values()):
        for tag, b in corpus.pickles_of(v):
            items.append((f"obj[{i}]/{tag}", b))
    items += oob_items()
    from .. import par

    if True:
        for r in par.pmap_unordered(_one, items, chunksize=64):
            if isinstance(r, par.WorkerDied):
                r = {"steps": 0, "refused": 0, "vm_rejected": 0, "pickles": 1,
                     "viol": [(PROP, "C09|worker-process-died", f"{r.why} while stepping {r.item[0]}",
                               {"engine": "corpus", "kind": "full", "tag": r.item[0], "bytes": r.item[1]}, 0)]}
            rep.add("corpus_pickles", r["pickles"])
            rep.add("corpus_prefix_steps", r["steps"])
            rep.add("corpus_refused_by_fickling", r["refused"])
            rep.add("corpus_vm_rejected", r["vm_rejected"])
            rep.merge_violations(r["viol"])
    rep.add("transitions", rep.cov.get("corpus_prefix_steps", 0))
    rep.add("traces_validated_against_impl", rep.cov.get("corpus_prefix_steps", 0))
