"""C17  Format identification follows the documented table and is read-only; polyglot creation is hygienic."""
import builtins
import hashlib
import io
import itertools
import json
import os
import pickle
import shutil
import tarfile
import zipfile
from contextlib import redirect_stderr, redirect_stdout

from .. import e1, e3
from ..common import Report

PROP = "C17"

MARKERS = ("data.pkl", "constants.pkl", "version", "model.json", "attributes.pkl")
# the documented decision table for zip-at-offset-0 files, in order of precedence
TABLE = [
    (("data.pkl", "constants.pkl", "version"), "TorchScript v1.4"),
    (("data.pkl", "constants.pkl"), "TorchScript v1.3"),
    (("model.json", "constants.pkl"), "TorchScript v1.0"),
    (("model.json", "attributes.pkl"), "TorchScript v1.1"),
    (("data.pkl",), "PyTorch v1.3"),
]


def expected_zip_formats(present):
    return [name for need, name in TABLE if all(m in present for m in need)]


def sha(path):
    with open(path, "rb") as f:
        return hashlib.sha256(f.read()).hexdigest()


def quiet(fn):
    with redirect_stdout(io.StringIO()), redirect_stderr(io.StringIO()):
        return fn()


_VERSION = [b"3\n"]


def make_zip(path, present, deep, junk, trailer):
    buf = io.BytesIO()
    with zipfile.ZipFile(buf, "w") as z:
        prefix = "archive/sub/" if deep else "archive/"
        z.writestr("archive/readme.txt", b"neutral member")
        for m in MARKERS:
            if m in present:
                content = pickle.dumps([1, 2], 2) if m.endswith(".pkl") else (_VERSION[0] if m == "version" else b"{}")
                z.writestr(prefix + m, content)
    data = buf.getvalue()
    if junk:
        data = b"\xff" * 20 + data
    if trailer == "pickle":
        data += pickle.dumps({"appended": 1}, 2)
    elif trailer == "tar":
        t = io.BytesIO()
        with tarfile.open(fileobj=t, mode="w") as tf:
            info = tarfile.TarInfo("x.txt")
            info.size = 3
            tf.addfile(info, io.BytesIO(b"abc"))
        data += t.getvalue()
    with open(path, "wb") as f:
        f.write(data)


def _synthetic(item):
    import fickling.polyglot as pg

    present, deep, junk, trailer, wd = item
    out = e1.Out()
    st = out.stats
    d = os.path.join(wd, f"syn-{os.getpid()}")
    os.makedirs(d, exist_ok=True)
    path = os.path.join(d, "f.bin")
    make_zip(path, present, deep, junk, trailer)
    before = sha(path)
    listing = sorted(os.listdir(d))
    cwd = os.getcwd()
    os.chdir(d)
    try:
        r1 = quiet(lambda: pg.identify_pytorch_file_format(path))
        r2 = quiet(lambda: pg.identify_pytorch_file_format(path, print_properties=True, print_results=True))
    except Exception as e:  # noqa: BLE001
        out.violate(PROP, f"C17|identify-raises|{type(e).__name__}", f"markers {sorted(present)} deep={deep} junk={junk} trailer={trailer}: {type(e).__name__}: {e}",
                    {"engine": "E3", "markers": sorted(present), "deep": deep, "junk": junk, "trailer": trailer}, len(present))
        return out
    finally:
        os.chdir(cwd)
    st.inc("identifications", 2)
    rp = {"engine": "E3", "markers": sorted(present), "deep": deep, "junk": junk, "trailer": trailer}
    cfgs = f"markers {sorted(present)} deep={deep} junk={junk} trailer={trailer}"
    if list(r1) != list(r2):
        out.violate(PROP, "C17|nondeterministic", f"{cfgs}: {r1} then {r2}", rp, len(present))
    if sha(path) != before:
        out.violate(PROP, "C17|identify-modifies-file", f"{cfgs}: file changed", rp, len(present))
    if sorted(os.listdir(d)) != listing:
        out.violate(PROP, "C17|identify-leaves-files", f"{cfgs}: directory changed: {sorted(os.listdir(d))}", rp, len(present))
    zip_formats = [f for f in r1 if f.startswith(("TorchScript", "PyTorch v1.3"))]
    want = [] if junk else expected_zip_formats(present)
    if zip_formats != want:
        miss = [w for w in want if w not in zip_formats] or [z for z in zip_formats if z not in want] or ["order"]
        out.violate(PROP, f"C17|table|{miss[0]}|{'junk' if junk else 'offset0'}", f"{cfgs}: identified {list(r1)}, documented table gives {want}", rp, len(present))
    else:
        st.inc("table_agreements")
    out.outcomes.add(tuple(r1))
    return out


# ---- real files -------------------------------------------------------------------------------------


def make_real(d):
    import torch
    import torch.nn as nn

    files = {}
    m = nn.Linear(2, 2)
    p = os.path.join(d, "zip.pt")
    torch.save(m, p)
    files["torch-zip"] = (p, ["PyTorch v1.3"])
    p = os.path.join(d, "legacy.pt")
    torch.save(m, p, _use_new_zipfile_serialization=False)
    files["torch-legacy"] = (p, ["PyTorch v0.1.10"])
    p = os.path.join(d, "legacy-p1.pt")
    torch.save(m, p, _use_new_zipfile_serialization=False, pickle_protocol=1)
    files["torch-legacy-p1"] = (p, ["PyTorch v0.1.10"])
    p = os.path.join(d, "script.pt")
    torch.jit.save(torch.jit.script(m), p)
    files["torchscript"] = (p, ["TorchScript v1.4", "TorchScript v1.3", "PyTorch v1.3"])
    p = os.path.join(d, "state.pt")
    torch.save(m.state_dict(), p)
    files["torch-zip-state"] = (p, ["PyTorch v1.3"])
    p = os.path.join(d, "legacy.tar")
    with tarfile.open(p, "w", format=tarfile.PAX_FORMAT) as tf:
        for name in ("sys_info", "pickle", "storages", "tensors"):
            info = tarfile.TarInfo(name)
            body = pickle.dumps({name: 1}, 2)
            info.size = len(body)
            tf.addfile(info, io.BytesIO(body))
    files["legacy-tar"] = (p, ["PyTorch v0.1.1"])
    p = os.path.join(d, "model.mar")
    with zipfile.ZipFile(p, "w") as z:
        z.writestr("MAR-INF/MANIFEST.json", b"{}")
        z.writestr("model.pt", pickle.dumps([1], 2))
        z.writestr("handler.py", b"print('x')\n")
    files["mar"] = (p, ["PyTorch model archive format"])
    p = os.path.join(d, "plain.zip")
    with zipfile.ZipFile(p, "w") as z:
        z.writestr("a.txt", b"hello")
    files["plain-zip"] = (p, [])
    p = os.path.join(d, "text.txt")
    with open(p, "wb") as f:
        f.write(b"\xff\xfenot a model at all\n")
    files["unidentifiable"] = (p, [])
    p = os.path.join(d, "plain.pkl")
    with open(p, "wb") as f:
        f.write(pickle.dumps([1, 2, 3], 2))
    files["plain-pickle"] = (p, [])
    return files


def torch_accepts_zip(path):
    import torch

    try:
        with open(path, "rb") as f:
            if not torch.serialization._is_zipfile(f):
                return False
        r = torch.serialization._open_zipfile_reader(path)
        try:
            return r.__enter__().has_record("data.pkl")
        finally:
            r.__exit__(None, None, None)
    except Exception:  # noqa: BLE001
        return False


class Faults:
    """Counts the file-system-mutating calls an operation makes; raises OSError at the k-th one."""

    def __init__(self, k=None):
        self.k = k
        self.n = 0
        self.log = []

    def tick(self, what):
        self.n += 1
        self.log.append(what)
        if self.k is not None and self.n == self.k:
            raise OSError(f"injected fault at mutating call #{self.n} ({what})")

    def __enter__(self):
        self.saved = (shutil.copy, os.remove, shutil.rmtree, zipfile.ZipFile.write, zipfile.ZipFile.extract, builtins.open)
        s = self

        def wrap(fn, name):
            def w(*a, **kw):
                s.tick(name)
                return fn(*a, **kw)

            return w

        shutil.copy = wrap(self.saved[0], "shutil.copy")
        # os.remove / shutil.rmtree are the cleanup primitives: a failing unlink leaves the file by definition,
        # so they are observed but never made to fail
        zipfile.ZipFile.write = wrap(self.saved[3], "ZipFile.write")
        zipfile.ZipFile.extract = wrap(self.saved[4], "ZipFile.extract")
        real_open = self.saved[5]

        def open_(file, mode="r", *a, **kw):
            if isinstance(mode, str) and ("a" in mode or "w" in mode) and "b" in mode and not str(file).endswith((".json",)):
                s.tick(f"open({mode})")
            return real_open(file, mode, *a, **kw)

        builtins.open = open_
        return self

    def __exit__(self, *a):
        shutil.copy, os.remove, shutil.rmtree, zipfile.ZipFile.write, zipfile.ZipFile.extract, builtins.open = self.saved


def _pair(item):
    import warnings

    import fickling.polyglot as pg

    warnings.simplefilter("ignore")
    a, b, k, wd = item[:4]
    subdir_out = len(item) > 4 and item[4]
    out = e1.Out()
    st = out.stats
    d = os.path.join(wd, f"pair-{os.getpid()}")
    shutil.rmtree(d, ignore_errors=True)
    os.makedirs(os.path.join(d, "in"))
    os.makedirs(os.path.join(d, "cwd"))
    files = make_real(os.path.join(d, "in"))
    pa, pb = files[a][0], files[b][0]
    ha, hb = sha(pa), sha(pb)
    cwd = os.getcwd()
    os.chdir(os.path.join(d, "cwd"))
    outname = "poly.out"
    if subdir_out:
        os.makedirs(os.path.join(d, "cwd", "outdir"))
        outname = os.path.join("outdir", "poly.out")
    rp = {"engine": "E3-fault", "first": a, "second": b, "fault_at": k, "output_in_subdirectory": bool(subdir_out)}
    try:
        with Faults(k) as fl:
            try:
                res = quiet(lambda: pg.create_polyglot(pa, pb, outname, print_results=False))
                how = "returned"
            except BaseException as e:  # noqa: BLE001
                res = e
                how = "raised"
        after = sorted(os.path.relpath(os.path.join(r, f), ".") for r, ds, fs in os.walk(".") for f in fs + [x + "/" for x in ds])
        after = [x for x in after if x.rstrip("/") != "outdir"]
    finally:
        os.chdir(cwd)
    st.inc("polyglot_runs")
    if k is not None:
        st.inc("fault_runs")
    out.table[(a, b)] = fl.n
    pair = f"create_polyglot({a}, {b})" + (f" with a fault at mutating call #{k} ({fl.log[k - 1] if k and k <= len(fl.log) else '-'})" if k else "")
    if sha(pa) != ha or sha(pb) != hb:
        out.violate(PROP, "C17|polyglot-modifies-input", f"{pair}: an input file changed", rp, k or 0)
    allowed = {outname} if (how == "returned" and res) else set()
    if k is not None:
        allowed |= {outname}  # a partially written polyglot after an injected failure is not a *temporary* file
    stray = [f for f in after if f not in allowed]
    if stray:
        kind = "fault" if k is not None else ("raised" if how == "raised" else ("no-polyglot" if not res else "success"))
        out.violate(PROP, f"C17|polyglot-leaves-files|{kind}", f"{pair}: {how} {res if how == 'raised' else bool(res)}; left behind {stray}", rp, k or 0)
    if k is None:
        if how == "raised":
            # raising (e.g. for a file that is no PyTorch file at all) is not forbidden; leaving files behind is
            out.outcomes.add(("raised", type(res).__name__))
            st.inc("pairs_raised")
        elif res:
            st.inc("polyglots_created")
            p = os.path.join(d, "cwd", outname)
            if not os.path.exists(p):
                out.violate(PROP, "C17|polyglot-missing", f"{pair}: reported success but no output file", rp, 0)
            else:
                fm = quiet(lambda: pg.identify_pytorch_file_format(p))
                need = set(files[a][1][:1]) | set(files[b][1][:1])
                if not need <= set(fm):
                    out.violate(PROP, "C17|polyglot-not-identified", f"{pair}: output identified as {list(fm)}, expected to include {sorted(need)}", rp, 0)
    shutil.rmtree(d, ignore_errors=True)
    return out


def _real(item):
    import warnings

    import fickling.polyglot as pg

    warnings.simplefilter("ignore")
    (wd,) = item
    out = e1.Out()
    d = os.path.join(wd, f"real-{os.getpid()}")
    os.makedirs(d, exist_ok=True)
    files = make_real(d)
    for name, (path, must) in files.items():
        h = sha(path)
        listing = sorted(os.listdir(d))
        cwd = os.getcwd()
        os.chdir(d)
        try:
            r1 = quiet(lambda: pg.identify_pytorch_file_format(path))
            r2 = quiet(lambda: pg.identify_pytorch_file_format(path))
        except Exception as e:  # noqa: BLE001
            out.violate(PROP, f"C17|identify-raises|{type(e).__name__}", f"real file {name}: {type(e).__name__}: {e}", {"engine": "E3", "file": name}, 1)
            continue
        finally:
            os.chdir(cwd)
        out.stats.inc("identifications", 2)
        rp = {"engine": "E3", "file": name}
        if list(r1) != list(r2):
            out.violate(PROP, "C17|nondeterministic", f"{name}: {r1} then {r2}", rp, 1)
        if sha(path) != h or sorted(os.listdir(d)) != listing:
            out.violate(PROP, "C17|identify-not-read-only", f"{name}: file or directory changed by identification", rp, 1)
        for mfmt in must:
            if mfmt not in r1:
                out.violate(PROP, f"C17|real-file|{name}|missing-{mfmt}", f"{name}: identified as {list(r1)}, expected to include {mfmt}", rp, 1)
        if must[:1] and list(r1)[:1] != must[:1]:
            out.violate(PROP, f"C17|real-file|{name}|primary", f"{name}: primary format {list(r1)[:1]}, expected {must[:1]}", rp, 1)
        if torch_accepts_zip(path) and "PyTorch v1.3" not in r1:
            out.violate(PROP, f"C17|torch-accepts|{name}", f"{name}: torch's zip reader accepts it but it is not reported as PyTorch v1.3: {list(r1)}", rp, 1)
        out.outcomes.add((name, tuple(r1)))
    return out


REAL = ("torch-zip", "torch-legacy", "torch-legacy-p1", "torchscript", "torch-zip-state", "legacy-tar", "mar", "plain-zip", "unidentifiable", "plain-pickle")


def _version_values(item):
    """The content of the `version` record (any value >= 2, one or several digits, with or without newline) does not
    change the identification of an archive that has data.pkl + constants.pkl + version."""
    import fickling.polyglot as pg

    (wd,) = item
    out = e1.Out()
    d = os.path.join(wd, f"ver-{os.getpid()}")
    os.makedirs(d, exist_ok=True)
    path = os.path.join(d, "v.bin")
    res = {}
    for v in (b"3\n", b"2", b"9\n", b"10\n", b"11", b"100\n", b"25"):
        _VERSION[0] = v
        try:
            for deep in (False, True):
                make_zip(path, frozenset(("data.pkl", "constants.pkl", "version")), deep, False, "none")
                res[(v, deep)] = list(quiet(lambda: pg.identify_pytorch_file_format(path)))
                out.stats.inc("identifications")
        finally:
            _VERSION[0] = b"3\n"
    for (v, deep), r in res.items():
        if r != res[(b"3\n", deep)]:
            out.violate(PROP, "C17|version-value", f"archive with version record {v!r} (deep={deep}) identified as {r}, with b'3\\n' as {res[(b'3' + bytes([10]), deep)]}",
                        {"engine": "E3", "version": v.decode(), "deep": deep}, 1)
    return out


def _tree_listing(root):
    out = []
    for d, _dirs, files in os.walk(root):
        for f in files:
            out.append(os.path.relpath(os.path.join(d, f), root))
    return sorted(out)


def _recursive_hygiene(item):
    """Recursive identification unpacks archive members into a private temporary directory: member names chosen by the
    archive (../x, absolute paths) must not place files anywhere else, and nothing may be left behind."""
    import tempfile

    import fickling.polyglot as pg

    (wd,) = item
    out = e1.Out()
    root = os.path.join(wd, f"rec-{os.getpid()}")
    for sub_ in ("in", "victim", "tmpbase"):
        os.makedirs(os.path.join(root, sub_), exist_ok=True)
    victim = os.path.join(root, "victim")
    members = {"plain.txt": b"hello", "../victim/escape.txt": b"escaped", "sub/../../victim/escape2.txt": b"escaped",
               os.path.join(victim, "abs.txt"): b"absolute"}
    tpath = os.path.join(root, "in", "arch.tar")
    with tarfile.open(tpath, "w") as tf:
        for name, content in members.items():
            info = tarfile.TarInfo(name)
            info.size = len(content)
            tf.addfile(info, io.BytesIO(content))
    zpath = os.path.join(root, "in", "arch.zip")
    with zipfile.ZipFile(zpath, "w") as z:
        for name, content in members.items():
            z.writestr(name, content)
    for kind, path in (("tar", tpath), ("zip", zpath)):
        before = sha(path)
        listing = _tree_listing(root)
        old_tmp = tempfile.tempdir
        tempfile.tempdir = os.path.join(root, "tmpbase")
        cwd = os.getcwd()
        os.chdir(os.path.join(root, "in"))
        try:
            try:
                quiet(lambda: pg.find_file_properties_recursively(path))
                how = "returned"
            except Exception as e:  # noqa: BLE001 - raising is not forbidden (numpy probe of this image); hygiene is judged
                how = f"raised {type(e).__name__}"
        finally:
            os.chdir(cwd)
            tempfile.tempdir = old_tmp
        out.stats.inc("recursive_identifications")
        after = _tree_listing(root)
        rp = {"engine": "E3", "archive": kind, "members": [m if not os.path.isabs(m) else "<absolute path into victim dir>" for m in members]}
        if after != listing:
            out.violate(PROP, f"C17|recursive-identification-writes-files|{kind}", f"find_file_properties_recursively on a {kind} with traversal / absolute "
                        f"member names ({how}): files appeared {sorted(set(after) - set(listing))[:4]}", rp, 1)
        if sha(path) != before:
            out.violate(PROP, f"C17|recursive-identification-modifies-input|{kind}", f"{kind} archive changed", rp, 1)
    return out


def check(tier):
    rep = Report(PROP, tier, level="fault_enumeration")
    subsets = [frozenset(c) for r in range(6) for c in itertools.combinations(MARKERS, r)]
    with e3.Scratch("c17") as wd:
        syn = [(s, deep, junk, tr, wd) for s, deep, junk, tr in itertools.product(subsets, (False, True), (False, True), ("none", "pickle", "tar"))]
        e3.pmap(_synthetic, syn, rep, chunksize=8)
        e3.pmap(_version_values, [(wd,)], rep, procs=1)
        e3.pmap(_recursive_hygiene, [(wd,)], rep, procs=1)
        e3.pmap(_real, [(wd,)], rep, procs=1)
        pairs = list(itertools.product(REAL, repeat=2))
        if tier == "quick":
            keep = ("torch-zip", "torchscript", "torch-legacy", "legacy-tar", "mar", "unidentifiable", "plain-pickle")
            pairs = [p for p in pairs if p[0] in keep and p[1] in keep]
        base = e3.pmap(_pair, [(a, b, None, wd) for a, b in pairs], rep, chunksize=2)
        # the same pairs with the output placed in a sub-directory (temporary files must not be left next to it either)
        e3.pmap(_pair, [(a, b, None, wd, True) for a, b in pairs], rep, chunksize=2)
        faults = []
        for (a, b), n in sorted(base.table.items()):
            for k in range(1, n + 1):
                faults.append((a, b, k, wd))
        rep.set("fault_points", len(faults))
        e3.pmap(_pair, faults, rep, chunksize=2)
    n = len(syn) + len(REAL) + len(pairs) + len(faults)
    rep.set("evaluations", rep.cov.get("identifications", 0) + rep.cov.get("polyglot_runs", 0))
    rep.set("distinct_nontrivial", n)
    rep.set("states", n)
    rep.set("transitions", rep.cov.get("identifications", 0) + rep.cov.get("polyglot_runs", 0))
    rep.set("traces_validated_against_impl", rep.cov.get("identifications", 0) + rep.cov.get("polyglot_runs", 0))
    rep.set("synthetic_zips", len(syn))
    rep.set("pairs", len(pairs))
    rep.set("rule", "32 marker subsets x placement x leading junk x trailer (384 synthetic zips) against the documented table; 10 real files written "
                    "by torch.save / torch.jit.save / tarfile / zipfile; all ordered pairs of real files through create_polyglot; and for "
                    "every pair every fault point k (the k-th shutil.copy / ZipFile.write / ZipFile.extract / open-for-append raises OSError)")
    rep.sample({"markers": ["constants.pkl", "model.json"], "expect": ["TorchScript v1.0"]})
    rep.sample({"pair": ["torch-zip", "unidentifiable"], "expect": "no temp_ files left, inputs unchanged"})
    rep.assumptions += ["the decision table is the documented one (module docstring / format_conditions order): TS1.4, TS1.3, TS1.0, TS1.1, PT1.3",
                        "synthetic zips contain no decoy members whose names merely contain a marker name",
                        "a partially written *output* after an injected failure is not counted as a temporary file"]
    return rep.finish()


def replay(path):
    case = json.load(open(path))["case"]
    print(case)
    with e3.Scratch("c17r") as wd:
        if "markers" in case:
            o = _synthetic((frozenset(case["markers"]), case["deep"], case["junk"], case["trailer"], wd))
        elif "first" in case:
            o = _pair((case["first"], case["second"], case.get("fault_at"), wd, case.get("output_in_subdirectory", False)))
        else:
            o = _real((wd,))
    for sig, lst in o.viol.items():
        print("REPRODUCED", sig, lst[0][2][:300])
    return 1 if o.viol else 0
