"""C03/C05 on natural object pickles (every protocol), and deviation-1 mutations around them."""
import multiprocessing as mp

from .. import corpus, e1, oracles
from ..common import ncpu
from ..e3 import _Guard as _G


class _Cfg:
    def __init__(self, prop):
        self.prop = prop

    def labels(self, seq):
        return list(seq)


def _one(item):
    tag, data, names = item
    out = e1.Out()
    term = e1.Term(_Cfg("corpus"), (tag,), data)
    for n in names:
        getattr(oracles, n)(term, out)
    return out


def items(tier, plain=False):
    its = []
    for i, v in enumerate(corpus.object_values()):
        for tag, b in corpus.pickles_of(v):
            its.append((f"obj[{i}]/{tag}", b))
    if plain:
        for i, v in enumerate(corpus.plain_values(tier)):
            for tag, b in corpus.pickles_of(v):
                its.append((f"plain[{i}]/{tag}", b))
    return its


def run(rep, tier, names=("c03_events",), plain=False):
    its = [(t, b, names) for t, b in items(tier, plain)]
    total = e1.Out()
    from .. import par

    for o in par.pmap_unordered(_G(_one, rep.prop), its, chunksize=32):
        if isinstance(o, par.WorkerDied):
            _d = e1.Out()
            _d.violate(rep.prop, f"{rep.prop}|worker-process-died", f"{o.why} while checking {repr(o.item)[:300]}", {"item": repr(o.item)[:2000]}, 0)
            o = _d
        total.merge(o)
    rep.add("corpus_pickles", len(its))
    rep.add("evaluations", len(its))
    rep.add("traces_validated_against_impl", len(its))
    for k, v in total.stats.items():
        rep.add("corpus_" + k, v)
    for sig, lst in total.viol.items():
        rep.merge_violations(lst)
        rep.vcount[sig] = rep.vcount.get(sig, 0) - len(lst) + total.vcount[sig]
