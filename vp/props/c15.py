"""C15  Injected constants and constructed opcodes mean what was asked, or are refused."""
import io
import json
import math
import os
import pickle
import pickletools

from .. import e1, e3
from ..common import Report

PROP = "C15"


def values(tier):
    ints = [0, 1, -1, 2, 255, 256, 257, 65535, 65536, 65537, 2**31 - 1, 2**31, 2**31 + 1, -(2**31), -(2**31) - 1, 2**63 - 1,
            2**63, 2**63 + 1, -(2**63), 10**30, -(10**30), 2**2048]
    floats = [0.0, -0.0, 1.0, 1.5, -2.5, 1e300, 5e-324, float("inf"), float("-inf"), float("nan"), 255.0, 1e15]
    bools = [True, False]
    texts = ["", "a", "abc", "123", "-5", "0x10", " 7 ", "1.5", "1e3", "True", "é", "ÿ", "\x80", "\x7f", "€", "\U0001f600", "a\nb", "a\rb",
             "tab\t", "q'\"", "back\\slash", "\\u0041", "\\n", "\x00", "\x1a", "\x1f", "x" * 255, "x" * 256, "é" * 200, "null\x00mid",
             "\\\\u00e9", "\\\\", "a\\\nb", "\\\x00", "C:\\Users\\u", "\\U0001F600", "\\\\\\u0041", "é\\t", "\\x41"]
    if tier == "thorough":
        texts += ["x" * 70000, "퟿", "﻿", "a b", "''", '"', "\\", "\\\\", "%s", "{}"]
    bys = [b"", b"ab", b"12", b"-3", b"0x1", b"\x00\xff", b"x" * 255, b"x" * 256, b"\n", b"a\\b", b"'"]
    scal = [("int", v) for v in ints] + [("float", v) for v in floats] + [("bool", v) for v in bools] + \
           [("text", v) for v in texts] + [("bytes", v) for v in bys]
    out = list(scal)
    for kind, v in scal:
        out.append((f"list[{kind}]", [v]))
        out.append((f"dict-value[{kind}]", {"k": v}))
    for kind, v in scal[::3]:
        out.append((f"list[list[{kind}]]", [[v], 0]))
        out.append((f"dict[list[{kind}]]", {"a": [1, {"b": v}]}))
        try:
            hash(v)
            if not (isinstance(v, float) and math.isnan(v)):
                out.append((f"dict-key[{kind}]", {v: "val"}))
        except TypeError:
            pass
    out += [("list[]", []), ("dict{}", {}), ("list[mixed]", [1, "a", 2.5, b"z", True]), ("none", None), ("tuple", (1, 2)),
            ("set", {1}), ("list[none]", [None]), ("list[tuple]", [(1,)])]
    return out


def same(a, b):
    if type(a) is not type(b):
        return False
    if isinstance(a, float):
        return repr(a) == repr(b)
    if isinstance(a, list):
        return len(a) == len(b) and all(same(x, y) for x, y in zip(a, b))
    if isinstance(a, dict):
        if len(a) != len(b):
            return False
        for (k1, v1), (k2, v2) in zip(a.items(), b.items()):
            if not same(k1, k2) or not same(v1, v2):
                return False
        return True
    return a == b


HELPERS = ("insert_python", "insert_python-runlast", "append_python", "insert_python_obj", "fn_call_constant_args",
           "fn_call_constant_args-compiled", "ConstantOpcode.new")

FN = "def vp_f(obj, a):\n    import vp_sink\n    vp_sink.hit(a)\n    return obj\n"


def build(helper, v):
    """Returns bytes of a pickle which, loaded, delivers v to vp_sink.hit (or returns it). Raises if refused."""
    import fickling.fickle as fk

    if helper == "ConstantOpcode.new":
        return fk.Pickled([fk.ConstantOpcode.new(v), fk.Stop()]).dumps(), "return"
    if helper == "insert_python_obj":
        p = fk.Pickled([fk.Stop()])
        p.insert_python_obj(0, v)
        return p.dumps(), "return"
    p = fk.Pickled.load(pickle.dumps("base", protocol=2))
    if helper == "insert_python":
        p.insert_python(v, module="vp_sink", attr="hit")
    elif helper == "insert_python-runlast":
        p.insert_python(v, module="vp_sink", attr="hit", run_first=False)
    elif helper == "append_python":
        p.append_python(v, module="vp_sink", attr="hit", pop_result=True)
    elif helper == "fn_call_constant_args":
        p.insert_function_call_on_unpickled_object(FN, constant_args=[v])
    elif helper == "fn_call_constant_args-compiled":
        p.insert_function_call_on_unpickled_object(FN, constant_args=[v], compile_code=True)
    else:
        raise KeyError(helper)
    return p.dumps(), "sink"


def kind_of(v):
    if isinstance(v, bool):
        return "bool"
    if isinstance(v, int):
        return "int"
    if isinstance(v, float):
        return "float"
    if isinstance(v, str):
        if v.lstrip("+-").isdigit():
            return "text-digits"
        try:
            float(v)
            return "text-numeric"
        except ValueError:
            pass
        try:
            int(v, 0)
            return "text-numeric"
        except ValueError:
            pass
        return "text"
    if isinstance(v, bytes):
        try:
            int(v)
            return "bytes-digits"
        except ValueError:
            return "bytes"
    return type(v).__name__


def leaf_kinds(v):
    if isinstance(v, list):
        return sorted({k for x in v for k in leaf_kinds(x)})
    if isinstance(v, dict):
        return sorted({k for a, b in v.items() for k in leaf_kinds(a) + leaf_kinds(b)})
    return [kind_of(v)]


def _value(item):
    import vp_sink

    (label, v), helper = item
    out = e1.Out()
    st = out.stats
    st.inc("builds_attempted")
    try:
        data, how = build(helper, v)
    except RecursionError:
        st.inc("refused")
        return out
    except Exception as e:  # noqa: BLE001
        st.inc("refused")
        out.outcomes.add(("refused", helper, type(e).__name__))
        return out
    vp_sink.reset()
    rp = {"engine": "E3", "helper": helper, "value_repr": repr(v)[:200], "label": label, "bytes": data}
    kinds = [k for k in leaf_kinds(v)]
    try:
        ret = pickle.loads(data)
    except Exception as e:  # noqa: BLE001
        out.violate(PROP, f"C15|{helper}|{_bad_kind(v, None)}|load-fails",
                    f"{helper}({label}): built pickle does not load: {type(e).__name__}: {e}", rp, len(repr(v)))
        return out
    st.inc("loads")
    if how == "return":
        got = ret
    else:
        hits = [a for (k, a, kw) in vp_sink.LOG if k == "hit"]
        if len(hits) != 1 or len(hits[0]) != 1:
            out.violate(PROP, f"C15|{helper}|{_bad_kind(v, None)}|sink-calls", f"{helper}({label}): sink saw {hits!r}", rp, len(repr(v)))
            vp_sink.reset()
            return out
        got = hits[0][0]
    vp_sink.reset()
    if same(got, v):
        st.inc("delivered_equal")
        out.outcomes.add(("equal", helper, tuple(kinds)))
    else:
        out.violate(PROP, f"C15|{helper}|{_bad_kind(v, got)}|silently-changed",
                    f"{helper}({label}): asked for {repr(v)[:80]} ({type(v).__name__}), unpickling process received "
                    f"{repr(got)[:80]} ({type(got).__name__})", rp, len(repr(v)))
    return out


def _bad_kind(v, got):
    """Kind of the first leaf that differs."""
    if got is None or type(v) is not type(got) or not isinstance(v, (list, dict)):
        if isinstance(v, (list, dict)):
            ks = leaf_kinds(v)
            return ks[0] if ks else type(v).__name__
        return kind_of(v)
    if isinstance(v, list):
        for a, b in zip(v, got):
            if not same(a, b):
                return _bad_kind(a, b)
    if isinstance(v, dict):
        for (k1, v1), (k2, v2) in zip(v.items(), got.items()):
            if not same(k1, k2):
                return _bad_kind(k1, k2)
            if not same(v1, v2):
                return _bad_kind(v1, v2)
    ks = leaf_kinds(v)
    return ks[0] if ks else "?"


# ---- CLI --create --------------------------------------------------------------------------------


class _EvalRecorder(pickle.Unpickler):
    def __init__(self, f):
        super().__init__(f)
        self.seen = []

    def find_class(self, module, name):
        def rec(*a):
            self.seen.append((module, name, a))
            return None

        return rec


def _create(item):
    from fickling import cli

    text, wd = item
    out = e1.Out()
    path = os.path.join(wd, f"c-{abs(hash(text)) % 10**9}-{os.getpid()}.pkl")
    out.stats.inc("cli_create_runs")
    rp = {"engine": "E3", "helper": "cli --create", "text": text}
    try:
        rc = cli.main(["fickling", "--create", text, path])
        data = open(path, "rb").read()
    except Exception as e:  # noqa: BLE001
        out.stats.inc("refused")
        return out
    finally:
        if os.path.exists(path):
            os.remove(path)
    rp["bytes"] = data
    u = _EvalRecorder(io.BytesIO(data))
    try:
        u.load()
    except Exception as e:  # noqa: BLE001
        out.violate(PROP, f"C15|cli-create|{kind_of(text)}|load-fails", f"--create {text!r}: pickle does not load: {type(e).__name__}: {e}",
                    rp, len(text))
        return out
    if len(u.seen) != 1 or u.seen[0][:2] not in (("__builtin__", "eval"), ("builtins", "eval")) or len(u.seen[0][2]) != 1:
        out.violate(PROP, f"C15|cli-create|{kind_of(text)}|shape", f"--create {text!r}: calls {u.seen!r}", rp, len(text))
        return out
    got = u.seen[0][2][0]
    if got != text or type(got) is not str:
        cls = "non-ascii" if any(ord(c) > 127 for c in text) else ("control" if any(ord(c) < 32 for c in text) else "ascii")
        out.violate(PROP, f"C15|cli-create|text-{cls}|silently-changed", f"--create {text!r}: eval receives {got!r}", rp, len(text))
    else:
        out.stats.inc("delivered_equal")
    return out


def _inject_cli(item):
    """CLI --inject: the code string handed to the CLI must reach eval unchanged."""
    from fickling import cli

    from .c18 import run_cli

    code, wd = item
    out = e1.Out()
    out.stats.inc("cli_inject_text_runs")
    base = pickle.dumps([1, 2], protocol=3)
    rp = {"engine": "E3", "helper": "cli --inject", "text": code}
    for flags in ([], ["--run-last"], ["--replace-result"]):
        rc, so, se = run_cli(["--inject", code] + flags, stdin_bytes=base)
        if rc != 0:
            out.stats.inc("refused")
            continue
        u = _EvalRecorder(io.BytesIO(so))
        try:
            u.load()
        except Exception as e:  # noqa: BLE001
            out.violate(PROP, f"C15|cli-inject|{kind_of(code)}|load-fails", f"--inject {code!r} {flags}: output does not load: {type(e).__name__}: {e}", rp, len(code))
            continue
        evs = [s for s in u.seen if s[1] == "eval"]
        if len(evs) != 1 or len(evs[0][2]) != 1:
            out.violate(PROP, f"C15|cli-inject|{kind_of(code)}|shape", f"--inject {code!r} {flags}: eval calls {evs!r}", rp, len(code))
            continue
        got = evs[0][2][0]
        if got != code or type(got) is not str:
            cls = "non-ascii" if any(ord(c) > 127 for c in code) else "ascii"
            out.violate(PROP, f"C15|cli-inject|text-{cls}|silently-changed", f"--inject {code!r} {flags}: eval receives {got!r}", rp, len(code))
        else:
            out.stats.inc("delivered_equal")
    return out


# ---- encoders ------------------------------------------------------------------------------------


def encoder_cases():
    """(class name, constructor arg, expected genops arg) for every registered opcode class."""
    big = "x" * 300
    cases = {
        "INT": [(7, 7), (-3, -3), (2**40, 2**40), (True, True), (False, False)],
        "LONG": [(9, 9), (-(10**25), -(10**25))],
        "BININT": [(70000, 70000), (-1, -1), (2**31 - 1, 2**31 - 1)],
        "BININT1": [(0, 0), (255, 255)],
        "BININT2": [(256, 256), (65535, 65535)],
        "LONG1": [(0, 0), (1, 1), (-1, -1), (255, 255), (2**70, 2**70)],
        "LONG4": [(5, 5), (-(2**40), -(2**40))],
        "STRING": [("ab", "ab"), ("it's", "it's"), ("", "")],
        "BINSTRING": [("ab", "ab"), (big, big)],
        "SHORT_BINSTRING": [("ab", "ab"), ("", "")],
        "BINBYTES": [(b"yz", b"yz"), (b"x" * 300, b"x" * 300)],
        "SHORT_BINBYTES": [(b"yz", b"yz"), (b"", b""), (b"x" * 255, b"x" * 255)],
        "BINBYTES8": [(b"yz", b"yz")],
        "NONE": [(None, None)], "NEWTRUE": [(None, None)], "NEWFALSE": [(None, None)],
        "UNICODE": [(b"u", "u"), ("café".encode(), "café"), (b"a\\b", "a\\b"), (b"l1\nl2", "l1\nl2"), ("€".encode(), "€")],
        "SHORT_BINUNICODE": [("s", "s"), ("é", "é"), ("x" * 255, "x" * 255)],
        "BINUNICODE": [("t", "t"), (big, big), ("\U0001f600", "\U0001f600")],
        "BINUNICODE8": [("v", "v")],
        "BINFLOAT": [(2.5, 2.5), (-0.0, -0.0)],
        "PUT": [(5, 5), (321987, 321987), (0, 0)], "BINPUT": [(5, 5), (0, 0), (255, 255)],
        "LONG_BINPUT": [(70000, 70000), (1, 1), (255, 255), (256, 256)],
        "GET": [(b"5\n", 5), (b"0\n", 0)], "BINGET": [(5, 5), (255, 255)], "LONG_BINGET": [(70000, 70000), (1, 1), (256, 256)],
        "GLOBAL": [("os system", "os system")], "INST": [("m C", "m C")],
        "PROTO": [(2, 2), (5, 5)], "FRAME": [(10, 10)], "PERSID": [("pid", "pid")],
    }
    noarg = ("EMPTY_LIST APPEND APPENDS LIST EMPTY_TUPLE TUPLE TUPLE1 TUPLE2 TUPLE3 EMPTY_DICT DICT SETITEM SETITEMS EMPTY_SET "
             "ADDITEMS FROZENSET POP DUP MARK POP_MARK MEMOIZE STACK_GLOBAL REDUCE BUILD OBJ NEWOBJ NEWOBJ_EX BINPERSID STOP").split()
    for n in noarg:
        cases[n] = [(None, None)]
    return cases


def arg_class(arg):
    if isinstance(arg, bytes):
        try:
            arg = arg.decode("utf-8")
        except UnicodeDecodeError:
            return "bytes"
    if isinstance(arg, str):
        if arg == "":
            return "empty"
        if any(ord(c) > 127 for c in arg):
            return "non-ascii"
        if "\n" in arg or "\r" in arg:
            return "newline"
        if "\\" in arg:
            return "backslash"
        if "'" in arg or '"' in arg:
            return "quote"
        return "ascii" if len(arg) < 256 else "ascii-long"
    if isinstance(arg, bool):
        return "bool"
    if isinstance(arg, int):
        return "zero" if arg == 0 else ("neg" if arg < 0 else ("small" if arg < 256 else "big"))
    return type(arg).__name__


def _encoder(item):
    import fickling.fickle as fk

    name, arg, want = item
    out = e1.Out()
    out.stats.inc("encoder_cases")
    cls = fk.OPCODES_BY_NAME[name]
    rp = {"engine": "E3", "opcode": name, "arg": repr(arg)}
    try:
        op = cls(arg) if arg is not None or name in ("NONE",) else cls()
        if name == "GET":
            op = fk.Get.create(want)
        enc = op.encode()
    except Exception as e:  # noqa: BLE001
        out.stats.inc("encoder_refused")
        out.outcomes.add(("enc-refused", name, type(e).__name__))
        return out
    rp["bytes"] = enc
    tail = b"." if name != "STOP" else b""
    pad = b"N" * 10 if name == "FRAME" else b""
    try:
        ops = [(i.name, a, p) for i, a, p in pickletools.genops(enc + pad + tail)]
    except Exception as e:  # noqa: BLE001
        out.violate(PROP, f"C15|encode|{name}|undecodable|{arg_class(arg)}", f"{name}({arg!r}).encode() = {enc[:40]!r} is not decodable: {e}", rp, 1)
        return out
    names = [o[0] for o in ops]
    expect_names = [name] + (["NONE"] * 10 if pad else []) + (["STOP"] if tail else [])
    if names != expect_names:
        out.violate(PROP, f"C15|encode|{name}|misread|{arg_class(arg)}", f"{name}({arg!r}).encode() = {enc[:40]!r} disassembles as {names[:4]}", rp, 1)
        return out
    got = ops[0][1]
    ok = same(got, want) if not isinstance(want, float) else repr(got) == repr(want)
    if not ok:
        out.violate(PROP, f"C15|encode|{name}|wrong-argument|{arg_class(arg)}", f"{name}({arg!r}).encode() = {enc[:40]!r} reads back argument {got!r}, expected {want!r}",
                    rp, 1)
    else:
        out.stats.inc("encoder_roundtrips")
    return out


def check(tier):
    import fickling.fickle as fk

    rep = Report(PROP, tier)
    vals = values(tier)
    items = [(lv, h) for lv in vals for h in HELPERS]
    e3.pmap(_value, items, rep, chunksize=32)
    texts = [v for k, v in vals if k == "text"] + ["__import__('os').getpid()", "1+1", "'q'", "\"dq\""]
    with e3.Scratch("c15") as wd:
        e3.pmap(_create, [(t, wd) for t in texts], rep, chunksize=4)
    with e3.Scratch("c15i") as wd:
        e3.pmap(_inject_cli, [(repr(t), wd) for t in texts if "\x00" not in t] + [("1+1", wd), ("print('é\\t')", wd)], rep, chunksize=4)
    for chan in ("cli_create_runs", "cli_inject_text_runs"):
        pass
    # the CLI creation / injection channels must accept ordinary text (a helper that refuses everything delivers nothing)
    with e3.Scratch("c15v") as wd:
        probe = _create(("1+1", wd))
        if probe.stats.get("delivered_equal", 0) != 1 and not probe.viol:
            rep.violate("C15|cli-create|plain-ascii-refused", "fickling --create '1+1' did not produce a loadable pickle delivering '1+1'",
                        {"engine": "E3", "helper": "cli --create", "text": "1+1"}, 1)
        probe = _inject_cli(("1+1", wd))
        if probe.stats.get("delivered_equal", 0) < 1 and not probe.viol:
            rep.violate("C15|cli-inject|plain-ascii-refused", "fickling --inject '1+1' did not produce a pickle delivering '1+1'",
                        {"engine": "E3", "helper": "cli --inject", "text": "1+1"}, 1)
    cases = encoder_cases()
    missing = sorted(set(fk.OPCODES_BY_NAME) - set(cases))
    if missing:
        rep.violate("C15|harness|opcode-class-without-case", f"registered opcode classes without encoder cases: {missing}", {"missing": missing})
    enc_items = [(n, a, w) for n, lst in cases.items() if n in fk.OPCODES_BY_NAME for a, w in lst]
    e3.pmap(_encoder, enc_items, rep, chunksize=8)
    n = len(items) + len(texts) + len(enc_items)
    e3.finish_counts(rep, n, rep.cov.get("loads", 0) + rep.cov.get("cli_create_runs", 0) + rep.cov.get("encoder_cases", 0), len(vals) + len(enc_items))
    rep.set("values", len(vals))
    rep.set("helpers", list(HELPERS) + ["cli --create"])
    rep.set("opcode_classes", len(cases))
    rep.set("rule", "boundary value list x 7 construction helpers (+ CLI --create for text); each built pickle is loaded by the stock unpickler and the "
                    "argument received by vp_sink.hit (or returned) compared by type and value; every registered opcode class x representative "
                    "arguments is encoded and read back with pickletools.genops")
    rep.sample({"helper": "insert_python", "value": "'123'", "expect": "arrives as the str '123' or is refused"})
    rep.assumptions += ["an exception from the helper or from dumps() counts as refusal", "floats compared by repr (so -0.0, nan are exact)"]
    return rep.finish()


def replay(path):
    case = json.load(open(path))["case"]
    data = bytes.fromhex(case["bytes"]["hex"])
    pickletools.dis(data[:400] if len(data) > 400 else data)
    return 0
