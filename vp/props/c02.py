"""C02  Checked load is fail-closed and loads exactly the bytes it analysed."""
import _pickle
import io
import itertools
import json
import os
import pickle

ORIG = {"load": pickle.load, "loads": pickle.loads, "cload": _pickle.load, "cloads": _pickle.loads}

from .. import e1, e3  # noqa: E402
from ..asm import asm, sbu  # noqa: E402
from ..common import Report  # noqa: E402
from ..vocab import RANK  # noqa: E402
from . import c08  # noqa: E402
from .c06 import RawNonSeekable  # noqa: E402
from .c10 import BASE_SHAPES, EXPECTED, SHAPES  # noqa: E402

PROP = "C02"

SINK_CALL = asm(("GLOBAL", ("vp_sink", "hit")), "MARK", "TUPLE", "REDUCE")
INPUTS = {k: SHAPES[k] for k in BASE_SHAPES}
INPUTS.update({
    "unsafe-call": SINK_CALL + b".",
    "benign-nested": pickle.dumps({"a": [1, (2, 3)], "b": {"c": None}}, protocol=4),
    "benign-p0": pickle.dumps([1, "two", 3.0][:2], protocol=0),
    # flagged without any GLOBAL / STACK_GLOBAL opcode
    "inst-call": asm("MARK", ("INST", ("vp_sink", "hit")), "STOP"),
    "dup-proto": asm(("PROTO", 4), ("PROTO", 4), ("BININT1", 1), "STOP"),
    "misplaced-proto": asm(("BININT1", 1), ("PROTO", 2), "STOP"),
    "canary-dotted": asm(("GLOBAL", ("vp_canary_pkg.sub", "boom")), "EMPTY_TUPLE", "REDUCE", "STOP"),
    # several findings of different severities, the lower ones reported by analyses that run earlier
    "nonstd-import+eval": asm(("GLOBAL", ("vp_sink", "other")), "POP", ("GLOBAL", ("builtins", "eval")), sbu("1+1"), "TUPLE1", "REDUCE", "STOP"),
    "dup-proto+os-import": asm(("PROTO", 2), ("PROTO", 2), ("GLOBAL", ("posix", "getpid")), "STOP"),
})
COMPUTED = {"inst-call": "LIKELY_UNSAFE", "dup-proto": "LIKELY_UNSAFE", "misplaced-proto": "LIKELY_UNSAFE", "canary-dotted": "LIKELY_UNSAFE"}
FAILING = {
    "unsupported-opcode+call": SINK_CALL + asm(("FLOAT", 1.5), "POP", "STOP"),
    "truncated+call": SINK_CALL + asm("MARK", ("BININT1", 1)),
    "interp-error+call": SINK_CALL + asm("POP", "POP", "STOP"),
    "newobj_ex+call": SINK_CALL + asm("POP", ("GLOBAL", ("vp_sink", "hit")), "EMPTY_TUPLE", "EMPTY_DICT", "NEWOBJ_EX", "STOP"),
    "append-nonlist+call": SINK_CALL + asm("NONE", "APPEND", "STOP"),
    "invalid-first-byte(ff)+call": b"\xff" + SINK_CALL + b".",
    "invalid-first-byte(00)+call": b"\x00" + SINK_CALL + b".",
    "invalid-first-byte(7f)+call": b"\x7f" + SINK_CALL + b".",
    "stop-only+call": b"." + SINK_CALL + b".",
    "empty": b"",
    "garbage": b"\xff\xfe not a pickle",
}
THRESHOLDS = ("LIKELY_SAFE", "POSSIBLY_UNSAFE", "SUSPICIOUS", "LIKELY_UNSAFE", "LIKELY_OVERTLY_MALICIOUS", "OVERTLY_MALICIOUS")
_BASE_ARMINGS = ("fickling.load", "global-hook", "context-manager")
PRIOR = "+after-permissive-context"  # a context accepting every verdict was entered and left earlier in the process
# the global check is armed, then a context object that was constructed *before* the arming is entered and left: the global
# check is still in force afterwards
EARLY = "+after-early-constructed-context"
ARMINGS = _BASE_ARMINGS + tuple(a + PRIOR for a in _BASE_ARMINGS) + ("global-hook" + EARLY,)
# "BytesIO@offset": the pickle sits behind another one in the buffer and the stream is positioned at its start; the
# pickle in front is a sink call when the input is benign and a harmless constant when the input itself is flagged
KINDS = ("bytes", "BytesIO", "file", "nonseekable", "BytesIO@offset")


def restore():
    pickle.load, pickle.loads = ORIG["load"], ORIG["loads"]
    _pickle.load, _pickle.loads = ORIG["cload"], ORIG["cloads"]


class Flipping(io.RawIOBase):
    """Seekable stream whose content is replaced by `after` once `k` stream calls have been made."""

    def __init__(self, before, after, k):
        self._b = io.BytesIO(before)
        self._after = after
        self.k = k
        self.calls = 0
        self.flipped_at = None

    def _tick(self):
        if self.k is not None and self.calls >= self.k and self.flipped_at is None:
            pos = self._b.tell()
            self._b = io.BytesIO(self._after)
            self._b.seek(min(pos, len(self._after)))
            self.flipped_at = self.calls
        self.calls += 1

    def readable(self):
        return True

    def seekable(self):
        return True

    def read(self, n=-1):
        self._tick()
        return self._b.read(n)

    def readinto(self, b):
        self._tick()
        return self._b.readinto(b)

    def readline(self, n=-1):
        self._tick()
        return self._b.readline(n)

    def peek(self, n=0):
        self._tick()
        pos = self._b.tell()
        d = self._b.read(n or 1)
        self._b.seek(pos)
        return d

    def seek(self, pos, whence=0):
        self._tick()
        return self._b.seek(pos, whence)

    def tell(self):
        self._tick()
        return self._b.tell()


def armed_load(arming, src, threshold):
    """Perform one checked load. Returns ('returned', value) or ('raised', exception)."""
    import fickling
    from fickling.analysis import Severity

    restore()
    if arming.endswith(PRIOR):
        arming = arming[: -len(PRIOR)]
        from fickling.context import FicklingContextManager

        with FicklingContextManager(max_acceptable_severity=Severity.OVERTLY_MALICIOUS):
            pass
        restore()
    early = None
    if arming.endswith(EARLY):
        arming = arming[: -len(EARLY)]
        early = fickling.check_safety()
    try:
        try:
            if early is not None:
                fickling.always_check_safety()
                with early:
                    pass
                return "returned", pickle.load(src)
            if arming == "fickling.load":
                return "returned", fickling.load(src, max_acceptable_severity=getattr(Severity, threshold))
            if arming == "global-hook":
                fickling.always_check_safety()
                return "returned", pickle.load(src)
            with fickling.check_safety():
                return "returned", pickle.load(src)
        except BaseException as e:  # noqa: BLE001
            return "raised", e
    finally:
        restore()


def observe(fn):
    import vp_sink

    c08.hook()
    vp_sink.reset()
    del c08._FC[:]
    c08._FC_ON[0] = True
    try:
        res = fn()
    finally:
        c08._FC_ON[0] = False
    log = list(vp_sink.LOG)
    fc = list(c08._FC)
    vp_sink.reset()
    return res, log, fc


_FRONT_BENIGN = asm(sbu("front"), "STOP")
_FRONT_SINK = asm(("GLOBAL", ("vp_sink", "hit")), sbu("front"), "TUPLE1", "REDUCE", "STOP")


def make_src(kind, data, wd):
    if kind == "bytes":
        return bytes(data), None
    if kind == "BytesIO":
        return io.BytesIO(data), None
    if kind == "BytesIO@offset":
        front = _FRONT_BENIGN if b"vp_sink" in data else _FRONT_SINK
        bio = io.BytesIO(front + data)
        bio.seek(len(front))
        return bio, None
    if kind == "file":
        path = os.path.join(wd, f"c02-{os.getpid()}.pkl")
        with open(path, "wb") as f:
            f.write(data)
        fh = open(path, "rb")
        return fh, fh
    return RawNonSeekable(data), None


def _config(item):
    from fickling.exception import UnsafeFileError

    name, data, arming, kind, threshold, wd = item
    out = e1.Out()
    st = out.stats
    st.inc("loads")
    eff_threshold = threshold if arming.startswith("fickling.load") else "LIKELY_SAFE"
    rp = {"engine": "E3", "input": name, "arming": arming, "stream": kind, "threshold": threshold, "bytes": data}
    import sys as _sys

    for m in [m for m in _sys.modules if m.split(".")[0] == "vp_canary_pkg"]:
        del _sys.modules[m]
    src, fh = make_src(kind, data, wd)
    try:
        (how, val), log, fc = observe(lambda: armed_load(arming, src, threshold))
    finally:
        if fh:
            fh.close()
    cfg = f"{name} via {arming}/{kind} threshold {threshold}"
    failing = name in FAILING
    sev = None
    if not failing:
        # the gate is judged against the library's own verdict for these bytes (whether that verdict is high enough is
        # C04's business); the comparison with the threshold goes through the independent rank table
        import fickling.fickle as _fk
        from fickling.analysis import check_safety as _cs

        sev = _cs(_fk.Pickled.load(data)).severity.name
    cfg = f"{name} via {arming}/{kind} threshold {threshold}"
    if how == "returned":
        if failing:
            out.violate(PROP, f"C02|returned-on-analysis-failure|{name}|{arming}", f"{cfg}: load returned {val!r} although the analysis cannot succeed", rp, 1)
            return out
        if RANK[sev] > RANK[eff_threshold]:
            out.violate(PROP, f"C02|returned-above-threshold|{sev}>{eff_threshold}|{arming}", f"{cfg}: returned although the verdict is {sev}", rp, 1)
            return out
        (want, wlog, wfc) = observe(lambda: ORIG["loads"](data))
        if not c08._eq(val, want):
            out.violate(PROP, f"C02|value-differs|{arming}|{kind}", f"{cfg}: returned {val!r}, stock unpickler gives {want!r}", rp, 1)
        if fc != wfc or log != wlog:
            out.violate(PROP, f"C02|effects-differ|{arming}|{kind}", f"{cfg}: resolutions/effects {fc} {log} differ from the stock load of the analysed bytes {wfc} {wlog}", rp, 1)
        st.inc("returned")
    else:
        if any(m.split(".")[0] == "vp_canary_pkg" for m in _sys.modules):
            out.violate(PROP, f"C02|module-imported-before-refusal|{arming}", f"{cfg}: the load was refused but the package named by the pickle was imported", rp, 1)
        if fc or log:
            out.violate(PROP, f"C02|executed-before-refusal|{arming}|{'failing' if failing else sev}",
                        f"{cfg}: raised {type(val).__name__} but find_class={fc} sink={log}", rp, 1)
        if failing:
            st.inc("analysis_failure_refused")
            out.outcomes.add(("failing", name, type(val).__name__))
            return out
        if RANK[sev] <= RANK[eff_threshold]:
            out.violate(PROP, f"C02|refused-at-or-below-threshold|{sev}<={eff_threshold}|{arming}|{kind}",
                        f"{cfg}: raised {type(val).__name__}: {val} although verdict {sev} is acceptable", rp, 1)
            return out
        if not isinstance(val, UnsafeFileError):
            out.violate(PROP, f"C02|wrong-exception|{type(val).__name__}|{arming}", f"{cfg}: raised {type(val).__name__} instead of UnsafeFileError", rp, 1)
            return out
        if not isinstance(val.info, dict) or val.info.get("severity") != sev:
            out.violate(PROP, f"C02|error-verdict|{arming}", f"{cfg}: UnsafeFileError carries {getattr(val, 'info', None)!r}, verdict is {sev}", rp, 1)
        st.inc("refused")
    return out


BENIGN = asm(sbu("x" * 14), "STOP")
MALICIOUS = asm(("GLOBAL", ("vp_sink", "hit")), "MARK", "TUPLE", "REDUCE", "STOP")
assert len(BENIGN) == len(MALICIOUS), (len(BENIGN), len(MALICIOUS))


def _flip(item):
    """Stream whose content changes from benign to malicious after the k-th stream call."""
    import fickling.loader as loader

    arming, k, direction = item
    out = e1.Out()
    st = out.stats
    before, after = (BENIGN, MALICIOUS) if direction == "benign->malicious" else (MALICIOUS, BENIGN)
    s = Flipping(before, after, k)
    done = {}
    real = loader.Pickled

    class Probe(real):
        @staticmethod
        def load(f, *a, **kw):
            r = real.load(f, *a, **kw)
            done["calls"] = s.calls
            return r

    loader.Pickled = Probe
    try:
        (how, val), log, fc = observe(lambda: armed_load(arming, s, "LIKELY_SAFE"))
    finally:
        loader.Pickled = real
    st.inc("fault_runs")
    kdone = done.get("calls")
    rp = {"engine": "E3-fault", "arming": arming, "flip_after_call": k, "direction": direction, "calls_total": s.calls, "calls_at_parse_end": kdone}
    after_first_pass = kdone is not None and (k is None or k >= kdone)
    hit = [e for e in log if e[0] == "hit"]
    if (hit or fc) and not after_first_pass:
        # The property quantifies over streams that change *after* the first pass.  A change while Pickled.load is
        # still reading (it reads each opcode twice: once through genops, once for the raw bytes) is recorded only.
        st.inc("observation_sink_executed_on_flip_during_first_pass")
        return out
    if hit or fc:
        phase = "after-first-pass"
        out.violate(PROP, f"C02|toctou|{arming}|{phase}|{direction}",
                    f"{arming}: content flipped after stream call #{k} (parse finished at call #{kdone}): sink executed {hit}, find_class {fc}, outcome {how}",
                    rp, k or 0)
        return out
    if after_first_pass:
        st.inc("fault_runs_after_first_pass")
        if direction == "benign->malicious":
            if how != "returned" or val != "x" * 14:
                out.violate(PROP, f"C02|toctou-result|{arming}", f"{arming}: flip at #{k} after the first pass: outcome {how} {val!r}, expected the benign value", rp, k or 0)
        else:
            if how != "raised":
                out.violate(PROP, f"C02|toctou-result|{arming}", f"{arming}: analysed malicious bytes but returned {val!r}", rp, k or 0)
    else:
        st.inc("fault_runs_during_first_pass(observation)")
    out.outcomes.add((arming, how, after_first_pass))
    return out


def check(tier):
    rep = Report(PROP, tier, level="fault_enumeration")
    allin = dict(INPUTS)
    allin.update(FAILING)
    with e3.Scratch("c02") as wd:
        items = []
        for (name, data), arming, kind in itertools.product(allin.items(), ARMINGS, KINDS):
            ths = THRESHOLDS if arming.startswith("fickling.load") else ("LIKELY_SAFE",)
            for th in ths:
                items.append((name, data, arming, kind, th, wd))
        e3.pmap(_config, items, rep, chunksize=8)
    # unfaulted run to learn how many stream calls a load makes, then every fault point
    flips = []
    for arming in _BASE_ARMINGS:
        s = Flipping(BENIGN, MALICIOUS, None)
        armed_load(arming, s, "LIKELY_SAFE")
        n1 = s.calls
        s = Flipping(MALICIOUS, BENIGN, None)
        armed_load(arming, s, "LIKELY_SAFE")
        n2 = s.calls
        rep.set(f"stream_calls_{arming}", [n1, n2])
        for k in range(0, n1 + 3):
            flips.append((arming, k, "benign->malicious"))
        for k in range(0, n2 + 3):
            flips.append((arming, k, "malicious->benign"))
    e3.pmap(_flip, flips, rep, chunksize=4)
    restore()
    n = len(items) + len(flips)
    rep.set("evaluations", n)
    rep.set("distinct_nontrivial", n)
    rep.set("states", n)
    rep.set("transitions", n)
    rep.set("traces_validated_against_impl", n)
    rep.set("fault_points", len(flips))
    rep.set("inputs", list(allin))
    rep.set("rule", "product inputs(19) x arming(3) x stream kind(4) x thresholds(6 for the loader, LIKELY_SAFE for hook/context) on the real code, plus "
                    "every stream fault point k=0..N+2 (content flips after the k-th read/seek/tell call, both directions) per arming path; "
                    "each configuration is one distinct point")
    rep.sample({"input": "overtly", "arming": "global-hook", "stream": "nonseekable", "threshold": "LIKELY_SAFE"})
    rep.sample({"fault": "flip benign->malicious after stream call #k for every k", "arming": "fickling.load"})
    rep.assumptions += ["expected severities of the shapes are fixed in the harness (C10 checks them against fickling separately)",
                        "hook and context manager always use the LIKELY_SAFE threshold (stricter than asked is not a violation)",
                        "flips during the first pass are observations unless the sink executes"]
    return rep.finish()


def replay(path):
    case = json.load(open(path))["case"]
    if "flip_after_call" in case:
        o = _flip((case["arming"], case["flip_after_call"], case["direction"]))
    else:
        data = bytes.fromhex(case["bytes"]["hex"])
        with e3.Scratch("c02r") as wd:
            o = _config((case["input"], data, case["arming"], case["stream"], case["threshold"], wd))
    for sig, lst in o.viol.items():
        print(sig, lst[0][2])
    return 1 if o.viol else 0
