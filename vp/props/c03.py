"""C03  No hidden execution: everything the VM would import or call is in the decompile."""
import json

from .. import e1, e3, oracles
from ..asm import BASE, G, INST, SG, alphabet, fullclass_symbols, register_ext
from ..common import Report

PROP = "C03"

CORE = "STR NONE MARK TUPLE T1 T2 ETUP EDICT REDUCE OBJ NEWOBJ NEWOBJ_EX BUILD BINPERSID POP POP_MARK DUP MEMOIZE BINGET0 BINGET1 BINPUT1 STACK_GLOBAL".split()


def sigma_exec():
    return alphabet(CORE, [G("os", "system"), G("__builtin__", "eval"), G("vp_sink", "hit"), G("m", "set"), G("__builtin__", "list"),
                           SG("os", "system"), SG("builtins", "exec"), INST("os", "system"), INST("__builtin__", "eval")])


NARROW = "STR NONE MARK TUPLE ETUP EDICT REDUCE OBJ NEWOBJ BUILD BINPERSID POP DUP MEMOIZE BINGET0".split()


def sigma_narrow():
    return alphabet(NARROW, [G("os", "system")])


def deviation_bases(tier):
    from .. import corpus

    out = []
    vals = corpus.object_values()
    pick = range(len(vals) - 1) if tier == "thorough" else [1, 2, 3, 6, 7, 9, 10, 11, 14, 15, 18, 20]
    for i in pick:
        for tag, b in corpus.pickles_of(vals[i], protocols=(0, 2, 4) if tier == "quick" else range(6), unframed=False):
            if len(b) < 400:
                out.append((f"obj[{i}]/{tag}", b))
    return out


def check(tier):
    rep = Report(PROP, tier)
    register_ext()
    depth = 5 if tier == "thorough" else 4
    cfg = e1.Config(PROP, sigma_exec(), depth, [], [oracles.c03_events], split=2)
    e1.run(cfg, rep)
    main_cov = dict(rep.cov)
    # narrow alphabet one level deeper
    rep2 = Report(PROP, tier)
    cfg2 = e1.Config(PROP, sigma_narrow(), depth + 2, [], [oracles.c03_events], split=2)
    e1.run(cfg2, rep2)
    _fold(rep, rep2, "narrow")
    # full-class pass: every opcode class in every position of length<=3 programs
    rep3 = Report(PROP, tier)
    ctx = alphabet("NONE K1 STR MARK TUPLE ETUP EDICT ELIST ESET POP".split(), [G("m", "C")])
    labels = {s.label for s in ctx}
    full = ctx + [s for s in fullclass_symbols() if s.label not in labels]
    cfg3 = e1.Config(PROP, full, 3, [], [oracles.c03_events], split=1)
    e1.run(cfg3, rep3)
    _fold(rep, rep3, "fullclass")
    # call-argument order and same-named globals of two modules (the callee / argument must be the object the VM used)
    rep4 = Report(PROP, tier)
    argorder = alphabet("MARK K1 STR TUPLE ETUP OBJ REDUCE POP".split(), [G("m", "X"), G("m2", "X"), INST("m", "X")])
    cfg4 = e1.Config(PROP, argorder, depth + 1, [], [oracles.c03_events], split=2)
    e1.run(cfg4, rep4)
    _fold(rep, rep4, "argorder")
    from . import c03_corpus

    c03_corpus.run(rep, tier)
    # the resolve-form x call-form x disposal x prefix product of C04 (memo layouts, same-named globals, ...) through this oracle
    from . import c04 as _c04

    tpl = [(t, b, ("c03_events",)) for t, b in _c04.template_programs(tier)]
    if tier == "quick":
        tpl = tpl[::3]
    from .. import par

    tot = e1.Out()
    for o in par.pmap_unordered(e3._Guard(c03_corpus._one, PROP), tpl, chunksize=256):
        if isinstance(o, par.WorkerDied):
            continue
        tot.merge(o)
    rep.add("template_programs", len(tpl))
    for sig, lst in tot.viol.items():
        rep.merge_violations(lst)
        rep.vcount[sig] = rep.vcount.get(sig, 0) - len(lst) + tot.vcount[sig]
    # deviation 1 around natural object pickles (long programs)
    from .. import deviate

    dsyms = alphabet("NONE STR MARK TUPLE ETUP EDICT REDUCE OBJ NEWOBJ BUILD BINPERSID POP POP_MARK DUP MEMOIZE BINGET0".split(),
                     [G("os", "system"), INST("os", "system")])
    deviate.run(PROP, deviation_bases(tier), dsyms, [(oracles, "c03_events")], rep)
    rep.assumptions += [
        "stub world: find_class/persistent_load return inert recording stubs on both sides; NEWOBJ => cls(*args), BUILD => __setstate__ are exact there",
        "reference VM = CPython pure-Python unpickler; programs it rejects are outside the quantifier",
        "'decompilation succeeds' = .ast and ast.unparse both succeed",
    ]
    return rep.finish()


def _fold(rep, other, tag):
    for k, v in other.cov.items():
        if isinstance(v, bool):
            continue
        if isinstance(v, int):
            if k in ("states", "transitions", "traces_validated_against_impl", "evaluations", "distinct_nontrivial"):
                rep.add(k, v)
            rep.set(f"{tag}_{k}", v)
        elif k == "alphabet":
            rep.set(f"{tag}_alphabet", v)
    for sig, lst in other.violations.items():
        for v in lst:
            rep.violation(v)
        rep.vcount[sig] = rep.vcount.get(sig, 0) - len(lst) + other.vcount[sig]
    for s in other.samples[:2]:
        rep.sample(s)


def replay(path):
    register_ext()
    return e1.replay_terminal(PROP, path, [oracles.c03_events])
