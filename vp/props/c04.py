"""C04  Detection floor: dangerous imports and calls are never rated LIKELY_SAFE (or below their floor)."""
import itertools
import json
import multiprocessing as mp

from .. import e1, e3, oracles
from ..asm import BASE, G, INST, SG, alphabet, asm, sbu
from ..common import Report, ncpu
from ..vocab import VOCAB
from .c03 import _fold

PROP = "C04"

CORE = "STR NONE MARK TUPLE T1 ETUP EDICT REDUCE OBJ NEWOBJ BUILD POP POP_MARK DUP MEMOIZE BINGET0 BINPUT1 BINGET1".split()

GROUPS = [
    [G("__builtin__", "eval"), G("os", "system"), G("vp_sink", "hit"), SG("builtins", "exec"), INST("builtins", "open")],
    # same attribute name from a benign and from a dangerous / non-stdlib module (shadowing)
    [G("copy", "copy"), G("shutil", "copy"), G("importlib", "__import__"), SG("builtins", "__import__"), INST("shutil", "copy")],
    [G("builtins", "getattr"), G("shutil", "rmtree"), G("collections", "OrderedDict"), SG("torch.hub", "load"),
     INST("vp_sink", "hit")],
    [G("builtins", "compile"), SG("os.path", "join"), G("numpy", "dtype"), INST("subprocess", "Popen"),
     G("_codecs", "encode")],
]


# ---- template product --------------------------------------------------------------------------

PREFIXES = {
    "none": b"",
    "same-name-benign": None,  # a benign stdlib global with the same attribute name, resolved and dropped first
    "proto2": asm(("PROTO", 2)),
    "proto4": asm(("PROTO", 4)),
    "benign-data": asm("EMPTY_LIST", ("BININT1", 1), "APPEND", "POP"),
    "benign-call": asm(("GLOBAL", ("collections", "OrderedDict")), "EMPTY_TUPLE", "REDUCE", "POP"),
}


def resolve_forms(m, n):
    return {
        "GLOBAL": asm(("GLOBAL", (m, n))),
        "STACK_GLOBAL": asm(sbu(m), sbu(n), "STACK_GLOBAL"),
        "GLOBAL+memo": asm(("GLOBAL", (m, n)), ("BINPUT", 7), "POP", ("BINGET", 7)),
        "SG+MEMOIZE": asm(sbu(m), "MEMOIZE", sbu(n), "MEMOIZE", "STACK_GLOBAL", "MEMOIZE"),
        # memo layouts: MEMOIZE overwriting an explicitly PUT key, PUT overwriting a MEMOIZEd key, long / text keys
        "MEMOIZE-overwrites-PUT": asm(("GLOBAL", ("collections", "OrderedDict")), ("BINPUT", 1), "POP", "NONE", "MEMOIZE", "POP",
                                      ("GLOBAL", (m, n)), "MEMOIZE", "POP", ("BINGET", 1)),
        "PUT-overwrites-MEMOIZE": asm(("GLOBAL", ("collections", "OrderedDict")), "MEMOIZE", "POP", ("GLOBAL", (m, n)), ("BINPUT", 0),
                                      "POP", ("BINGET", 0)),
        "LONG_BINPUT": asm(("GLOBAL", (m, n)), ("LONG_BINPUT", 70000), "POP", ("LONG_BINGET", 70000)),
        "PUT-GET-text": asm(("GLOBAL", (m, n)), ("PUT", 5), "POP", ("GET", 5)),
    }


ARG = asm(sbu("x=1"))


def call_forms(m, n):
    """name -> function(resolve_bytes) -> bytes leaving the call's value on the stack"""
    return {
        "import-only": lambda r: r,
        "REDUCE": lambda r: r + ARG + asm("TUPLE1", "REDUCE"),
        "REDUCE-marktuple": lambda r: r + asm("MARK") + ARG + asm("TUPLE", "REDUCE"),
        "OBJ": lambda r: asm("MARK") + r + ARG + asm("OBJ"),
        "NEWOBJ": lambda r: r + ARG + asm("TUPLE1", "NEWOBJ"),
        "INST": lambda r: asm("MARK") + ARG + asm(("INST", (m, n))),
        "REDUCE-twice": lambda r: r + asm("DUP") + ARG + asm("TUPLE1", "REDUCE", "POP") + ARG + asm("TUPLE1", "REDUCE"),
        "computed-callee": lambda r: r + ARG + asm("TUPLE1", "REDUCE") + ARG + asm("TUPLE1", "REDUCE"),
    }


DISPOSALS = {
    "keep": b"",
    "pop-none": asm("POP", "NONE"),
    "memo-pop-none": asm("MEMOIZE", "POP", "NONE"),
    "build": asm("EMPTY_DICT", "BUILD"),
    "build-pop": asm("EMPTY_DICT", "BUILD", "POP", "NONE"),
    "in-tuple": asm("TUPLE1"),
    "in-list": asm("EMPTY_LIST") + b"",  # placeholder replaced below
    "arg-of-benign": b"",  # placeholder replaced below
    "dup-pop": asm("DUP", "POP"),
    "under-result": asm("NONE"),  # value left below the result at STOP
    "mark-popmark": asm("MARK", "NONE", "POP_MARK"),
}


def dispose(body, name):
    if name == "in-list":
        return asm("EMPTY_LIST") + body + asm("APPEND")
    if name == "arg-of-benign":
        return asm(("GLOBAL", ("collections", "OrderedDict"))) + body + asm("TUPLE1", "REDUCE")
    if name == "under-result":
        return body + asm("NONE")
    return body + DISPOSALS[name]


def template_programs(tier):
    for (m, n) in VOCAB:
        rf = resolve_forms(m, n)
        cf = call_forms(m, n)
        for (rn, rb), (cn, cfun), dn, (pn, pb) in itertools.product(rf.items(), cf.items(), DISPOSALS, PREFIXES.items()):
            if cn == "INST" and rn != "GLOBAL":
                continue
            body = cfun(rb)
            if pb is None:
                from ..vocab import SHADOW

                if n not in SHADOW or SHADOW[n] == m:
                    continue
                pb = asm(("GLOBAL", (SHADOW[n], n)), "POP")
            data = pb + dispose(body, dn) + b"."
            yield (f"{m}.{n}|{rn}|{cn}|{dn}|{pn}", data)


class _Cfg:
    def labels(self, seq):
        return list(seq)


def _one(item):
    tag, data = item
    out = e1.Out()
    term = e1.Term(_Cfg(), (tag,), data)
    okv, _ = term.vm
    if not okv:
        out.stats.inc("template_vm_rejected")
        return out
    out.stats.inc("template_programs")
    oracles.c04_floor(term, out)
    return out


def check(tier):
    rep = Report(PROP, tier)
    depth = 5 if tier == "thorough" else 4
    first = True
    for gi, grp in enumerate(GROUPS):
        r = rep if first else Report(PROP, tier)
        cfg = e1.Config(PROP, alphabet(CORE, grp), depth, [], [oracles.c04_floor], split=2)
        e1.run(cfg, r)
        if not first:
            _fold(rep, r, f"group{gi}")
        first = False
    from .. import deviate
    from .c03 import deviation_bases

    dsyms = alphabet("NONE STR MARK TUPLE ETUP EDICT REDUCE OBJ NEWOBJ BUILD POP DUP MEMOIZE BINGET0".split(),
                     [G("os", "system"), G("builtins", "eval"), G("builtins", "getattr"), INST("vp_sink", "hit")])
    deviate.run(PROP, deviation_bases(tier), dsyms, [(oracles, "c04_floor")], rep)
    items = list(template_programs(tier))
    total = e1.Out()
    from .. import par

    for o in par.pmap_unordered(e3._Guard(_one, PROP), items, chunksize=128):
        if isinstance(o, par.WorkerDied):
            _d = e1.Out()
            _d.violate(PROP, f"{PROP}|worker-process-died", f"{o.why} while checking {repr(o.item)[:300]}", {"item": repr(o.item)[:2000]}, 0)
            o = _d
        total.merge(o)
    for k, v in total.stats.items():
        rep.add(k, v)
    rep.add("evaluations", len(items))
    rep.add("traces_validated_against_impl", total.stats.get("template_programs", 0))
    rep.set("template_axes", {"vocabulary": len(VOCAB), "resolve_forms": 8, "call_forms": 8,
                              "disposals": len(DISPOSALS), "prefixes": len(PREFIXES)})
    for sig, lst in total.viol.items():
        rep.merge_violations(lst)
        rep.vcount[sig] = rep.vcount.get(sig, 0) - len(lst) + total.vcount[sig]
    rep.assumptions += [
        "ground truth = reference VM event log under inert stubs + generator-fixed module labels (vp/vocab.py)",
        "floor is one-directional: a verdict above the floor is never a violation",
        "programs on which the analysis raises are C19's business and are only counted here",
    ]
    return rep.finish()


def replay(path):
    return e1.replay_terminal(PROP, path, [oracles.c04_floor])
