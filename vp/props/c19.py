"""C19  Safety analysis is total on every pickle that decompiles."""
import itertools
import json
import multiprocessing as mp

from .. import e1, e3, oracles
from ..asm import G, INST, SG, alphabet, asm, sbu
from ..common import Report, ncpu
from .c03 import _fold
from .c04 import _Cfg

PROP = "C19"

MODULES = ["builtins", "__builtin__", "__builtins__", "os", "posix", "subprocess", "sys", "socket", "shutil", "urllib",
           "torch.hub", "dill", "code", "torch", "numpy.testing._private.utils", "operator", "torch.storage",
           "collections", "vp_sink", "numpy", "_io", "runpy", "m", "a.b.c"]
NAMES = ["eval", "exec", "compile", "open", "load", "getitem", "attrgetter", "itemgetter", "methodcaller", "runstring",
         "_load_from_bytes", "_run_code", "execWrapper", "__setstate__", "system", "OrderedDict", "x"]

ARG = asm(sbu("1+1"))
USES = {
    "import-only": lambda r, mn: r,
    "REDUCE": lambda r, mn: r + ARG + asm("TUPLE1", "REDUCE"),
    "OBJ": lambda r, mn: asm("MARK") + r + ARG + asm("OBJ"),
    "NEWOBJ": lambda r, mn: r + ARG + asm("TUPLE1", "NEWOBJ"),
    "BUILD": lambda r, mn: r + asm("EMPTY_TUPLE", "REDUCE", "EMPTY_DICT", "BUILD"),
    "INST": lambda r, mn: asm("MARK") + ARG + asm(("INST", mn)),
    "twice": lambda r, mn: r + asm("POP") + r,
}
PROTOS = {
    "none": lambda body: body,
    "first": lambda body: asm(("PROTO", 4)) + body,
    "duplicated": lambda body: asm(("PROTO", 4), ("PROTO", 4)) + body,
    "dup-different": lambda body: asm(("PROTO", 2), ("PROTO", 3)) + body,
    "misplaced": lambda body: asm("NONE", "POP", ("PROTO", 2)) + body,
}


def programs():
    for m, n in itertools.product(MODULES, NAMES):
        res = {"GLOBAL": asm(("GLOBAL", (m, n))), "STACK_GLOBAL": asm(sbu(m), sbu(n), "STACK_GLOBAL")}
        for (rn, rb), (un, uf), (pn, pf) in itertools.product(res.items(), USES.items(), PROTOS.items()):
            if un == "INST" and rn != "GLOBAL":
                continue
            yield (f"{m}.{n}|{rn}|{un}|proto-{pn}", pf(uf(rb, (m, n))) + b".")


def proto_positions():
    """A second PROTO opcode (same / other version) as the k-th opcode for every k up to 40."""
    for k in range(2, 41):
        for v2 in (2, 4):
            body = [("PROTO", 2)] + ["NONE", "POP"] * ((k - 2) // 2) + (["NONE"] if (k - 2) % 2 else [])
            tail = ["POP"] if (k - 2) % 2 else []
            yield (f"second-proto-at-{k}/v{v2}", asm(*body, ("PROTO", v2), *tail, "NONE", "STOP"))


def _one(item):
    tag, data = item
    out = e1.Out()
    term = e1.Term(_Cfg(), (tag,), data)
    oracles.c19_total(term, out)
    return out


GROUP = [G("m", "eval"), G("operator", "getitem"), SG("torch", "load"), INST("os", "open"), G("__builtin__", "exec"),
         G("vp_sink", "hit")]
CORE = "STR NONE MARK TUPLE T1 ETUP EDICT REDUCE OBJ NEWOBJ BUILD POP DUP MEMOIZE BINGET0 PROTO2 PROTO4 BINPERSID".split()


def check(tier):
    rep = Report(PROP, tier)
    depth = 5 if tier == "thorough" else 4
    cfg = e1.Config(PROP, alphabet(CORE, GROUP), depth, [], [oracles.c19_total], split=2)
    e1.run(cfg, rep)
    # programs whose decompilation contains other statement shapes (subscript assignment, update(), __setstate__ ...)
    rep2 = Report(PROP, tier)
    shapes = alphabet("STR K1 ETUP EDICT ELIST MARK REDUCE NEWOBJ BUILD SETITEM SETITEMS APPEND MEMOIZE BINGET0 POP".split(),
                      [G("collections", "OrderedDict"), G("m", "eval")])
    cfg2 = e1.Config(PROP, shapes, depth + 1, [], [oracles.c19_total], split=2)
    e1.run(cfg2, rep2)
    _fold(rep, rep2, "shapes")
    from .. import corpus

    from .. import deviate
    from .c03 import deviation_bases

    dsyms = alphabet("NONE STR MARK TUPLE ETUP EDICT REDUCE OBJ NEWOBJ BUILD SETITEM APPEND POP DUP MEMOIZE BINGET0 PROTO2".split(),
                     [G("m", "eval"), G("operator", "getitem"), INST("os", "open")])
    deviate.run(PROP, deviation_bases(tier), dsyms, [(oracles, "c19_total")], rep)
    items = list(programs()) + list(proto_positions())
    for i, v in enumerate(corpus.object_values()[:-1] + corpus.plain_values("quick")[::5]):
        for tag, b in corpus.pickles_of(v, unframed=False):
            items.append((f"corpus[{i}]/{tag}", b))
    total = e1.Out()
    from .. import par

    for o in par.pmap_unordered(e3._Guard(_one, PROP), items, chunksize=128):
        if isinstance(o, par.WorkerDied):
            _d = e1.Out()
            _d.violate(PROP, f"{PROP}|worker-process-died", f"{o.why} while checking {repr(o.item)[:300]}", {"item": repr(o.item)[:2000]}, 0)
            o = _d
        total.merge(o)
    for k, v in total.stats.items():
        rep.add("product_" + k, v)
    rep.add("evaluations", len(items))
    rep.add("traces_validated_against_impl", total.stats.get("decompilable_programs", 0))
    rep.set("product_axes", {"modules": len(MODULES), "names": len(NAMES), "resolve": 2, "uses": len(USES), "proto": len(PROTOS),
                             "programs": len(items)})
    for sig, lst in total.viol.items():
        rep.merge_violations(lst)
        rep.vcount[sig] = rep.vcount.get(sig, 0) - len(lst) + total.vcount[sig]
    rep.assumptions += [
        "pickle.loads is replaced by a recorder while fickling.load runs so that no generated program is really unpickled",
        "'decompilable' = .ast and ast.unparse succeed; RecursionError on cyclic ASTs is counted, not reported",
    ]
    return rep.finish()


def replay(path):
    return e1.replay_terminal(PROP, path, [oracles.c19_total])
