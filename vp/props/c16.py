"""C16  PyTorch payload insertion changes only the model pickle and keeps the model."""
import hashlib
import io
import itertools
import json
import os
import zipfile
from contextlib import redirect_stderr, redirect_stdout

from .. import e1, e3
from ..common import Report
from . import c08

PROP = "C16"


def objects(tier):
    import torch
    import torch.nn as nn

    torch.manual_seed(0)
    out = {}
    out["linear"] = lambda: nn.Linear(2, 3)
    out["sequential"] = lambda: nn.Sequential(nn.Linear(2, 2), nn.ReLU(), nn.Linear(2, 1))
    out["state_dict"] = lambda: nn.Linear(3, 2).state_dict()
    dts = [torch.float32, torch.float16, torch.bfloat16, torch.int64, torch.bool]
    shapes = [(), (0,), (2, 3)]
    for dt, sh in itertools.product(dts, shapes):
        name = f"tensor-{str(dt).split('.')[-1]}-{'x'.join(map(str, sh)) or 'scalar'}"
        out[name] = (lambda dt=dt, sh=sh: torch.ones(sh).to(dt) if dt is not torch.bool else torch.ones(sh) > 0)
    out["nested"] = lambda: {"a": torch.arange(3.0), "b": [torch.zeros(2, dtype=torch.int64), (torch.ones(1, dtype=torch.float16),)], "n": 3, "s": "txt"}
    out["shared-storage"] = lambda: (lambda base: [base[:3], base[3:], base])(torch.arange(6.0))
    out["empty-containers"] = lambda: {"l": [], "t": (), "d": {}}
    # more than 255 memo entries in the model pickle (LONG_BINPUT at torch's default protocol 2)
    out["many-tensors"] = lambda: {f"w{i}": torch.full((2,), float(i)) for i in range(60)}
    out["deep-sequential"] = lambda: nn.Sequential(*[nn.Linear(2, 2) for _ in range(6)])
    # one storage above 1 MiB next to small ones
    out["big-storage"] = lambda: {"small": torch.ones(2), "big": torch.zeros(600, 600), "tail": torch.ones(3, dtype=torch.int64)}
    if tier == "never":
        keep = ["linear", "sequential", "state_dict", "nested", "shared-storage", "tensor-float32-2x3", "tensor-bfloat16-scalar",
                "tensor-int64-0", "tensor-bool-2x3", "tensor-float16-0"]
        out = {k: out[k] for k in keep}
    return out


def payloads(tier):
    from .c15 import values

    texts = [v for k, v in values(tier) if k == "text" and len(v) < 300]
    if tier == "quick":
        texts = texts[::2]
    ps = [(f"text[{i}]", f"import vp_sink; vp_sink.hit({t!r})", (t,)) for i, t in enumerate(texts)]
    ps += [("digits-only", "123", None), ("multi-line", "import vp_sink\nfor _i in range(1):\n    vp_sink.hit('ml', 2)\n", ("ml", 2)),
           ("plain", "import vp_sink; vp_sink.hit()", ()),
           # payload texts that also occur as strings of the model pickle (storage key, device)
           ("equals-model-string-0", "0", None), ("equals-model-string-cpu", "cpu = 1", None),
           ("blank-lines-in-literal", BLANK_PAYLOAD, ("first line\n    \n\t\nlast line", "  a\n    \n  b"))]
    return ps


BLANK_PAYLOAD = "import vp_sink\nvp_sink.hit('first line\\n    \\n\\t\\nlast line', '''  a\n    \n  b''')\n"


def sha(path):
    with open(path, "rb") as f:
        return hashlib.sha256(f.read()).hexdigest()


def tensors_of(obj, acc=None):
    import torch

    acc = [] if acc is None else acc
    if isinstance(obj, torch.nn.Module):
        for k, v in obj.state_dict().items():
            acc.append((k, v))
    elif isinstance(obj, torch.Tensor):
        acc.append(("t", obj))
    elif isinstance(obj, dict):
        for k, v in obj.items():
            tensors_of(v, acc)
    elif isinstance(obj, (list, tuple)):
        for v in obj:
            tensors_of(v, acc)
    return acc


def skeleton(obj):
    import torch

    if isinstance(obj, torch.nn.Module):
        return ("module", type(obj).__name__, repr(obj))
    if isinstance(obj, torch.Tensor):
        return ("tensor", str(obj.dtype), tuple(obj.shape))
    if isinstance(obj, dict):
        return ("dict", tuple((k, skeleton(v)) for k, v in obj.items()))
    if isinstance(obj, (list, tuple)):
        return (type(obj).__name__, tuple(skeleton(v) for v in obj))
    return ("v", repr(obj))


def same_model(a, b):
    import torch

    if skeleton(a) != skeleton(b):
        return f"structure differs: {skeleton(a)} vs {skeleton(b)}"
    ta, tb = tensors_of(a), tensors_of(b)
    for (ka, x), (kb, y) in zip(ta, tb):
        if ka != kb or x.dtype != y.dtype or x.shape != y.shape or not torch.equal(x, y):
            return f"tensor {ka} differs"
    # storage sharing pattern
    def pattern(ts):
        ptrs = [t.untyped_storage().data_ptr() if t.numel() else None for _k, t in ts]
        return [ptrs.index(p) if p is not None else -1 for p in ptrs]

    if pattern(ta) != pattern(tb):
        return "storage sharing pattern differs"
    return None


def _case(item):
    import warnings

    import torch
    import vp_sink

    import fickling.fickle as fk
    from fickling.pytorch import PyTorchModelWrapper

    warnings.simplefilter("ignore")
    (oname, _), (pname, payload, want_args), overwrite, wd = item
    out = e1.Out()
    st = out.stats
    st.inc("injections")
    obj = objects("thorough")[oname]()
    d = os.path.join(wd, f"c16-{os.getpid()}")
    os.makedirs(d, exist_ok=True)
    src, dst = os.path.join(d, "model.pt"), os.path.join(d, "out.pt")
    for p in (src, dst):
        if os.path.exists(p):
            os.remove(p)
    torch.save(obj, src)
    # a file left at the output path by an earlier run (longer than the new archive) must not shine through
    with open(dst, "wb") as f:
        f.write(b"stale output of an earlier injection " * 40000 if not overwrite else b"stale output of an earlier injection")
    # an earlier, unrelated injection in the same process must not influence this one
    warm = os.path.join(d, "warm.pt")
    warm_out = os.path.join(d, "warm-out.pt")
    torch.save({"w": torch.zeros(1)}, warm)
    try:
        with redirect_stdout(io.StringIO()), redirect_stderr(io.StringIO()):
            PyTorchModelWrapper(warm).inject_payload("pass", warm_out, injection="insertion", overwrite=False)
    finally:
        for pth in (warm, warm_out):
            if os.path.exists(pth):
                os.remove(pth)
    before = sha(src)
    with zipfile.ZipFile(src) as z:
        names0 = z.namelist()
        members0 = {n: z.read(n) for n in names0}
    pkl_name = next(n for n in names0 if n.endswith("/data.pkl"))
    ref = fk.Pickled.load(members0[pkl_name])
    ref.insert_python_exec(payload)
    expect_pkl = ref.dumps()
    rp = {"engine": "E3", "object": oname, "payload": payload, "overwrite": overwrite}
    tag = f"{oname} payload {pname} overwrite={overwrite}"
    listing0 = sorted(os.listdir(d))
    try:
        with redirect_stdout(io.StringIO()), redirect_stderr(io.StringIO()):
            PyTorchModelWrapper(src).inject_payload(payload, dst, injection="insertion", overwrite=overwrite)
    except Exception as e:  # noqa: BLE001
        out.violate(PROP, f"C16|inject-raises|{type(e).__name__}|{_pk(pname)}", f"{tag}: inject_payload raised {type(e).__name__}: {e}", rp, 1)
        return out
    result_path = src if overwrite else dst
    if overwrite:
        if os.path.exists(dst):
            out.violate(PROP, "C16|overwrite|stray-output", f"{tag}: output path still exists after overwrite", rp, 1)
        if sha(src) == before:
            out.violate(PROP, "C16|overwrite|input-not-replaced", f"{tag}: input file unchanged although overwrite was requested", rp, 1)
    else:
        if sha(src) != before:
            out.violate(PROP, "C16|input-modified", f"{tag}: input file changed although overwrite=False", rp, 1)
        if not os.path.exists(dst):
            out.violate(PROP, "C16|no-output", f"{tag}: no output file", rp, 1)
            return out
    stray = [f for f in sorted(os.listdir(d)) if f not in listing0 and f != os.path.basename(dst)]
    if stray:
        out.violate(PROP, "C16|stray-files", f"{tag}: stray files {stray}", rp, 1)
    try:
        with zipfile.ZipFile(result_path) as z:
            names1 = z.namelist()
            members1 = {n: z.read(n) for n in names1}
    except zipfile.BadZipFile as e:
        out.violate(PROP, "C16|output-not-a-valid-zip", f"{tag}: the injected archive cannot be opened: {e}", rp, 1)
        return out
    if names1 != names0:
        out.violate(PROP, "C16|member-names", f"{tag}: member list {names1} != original {names0}", rp, 1)
        return out
    for n in names0:
        if n == pkl_name:
            continue
        if members1[n] != members0[n]:
            out.violate(PROP, f"C16|member-changed|{n.split('/', 1)[-1].split('/')[0]}", f"{tag}: member {n} is not byte-identical", rp, 1)
    if members1[pkl_name] != expect_pkl:
        out.violate(PROP, f"C16|model-pickle|{_pk(pname)}", f"{tag}: data.pkl differs from insert_python_exec applied to the original data.pkl", rp, 1)
    # load for real
    c08.hook()
    vp_sink.reset()
    del c08._FC[:]
    c08._FC_ON[0] = True
    try:
        try:
            loaded = torch.load(result_path, weights_only=False)
            err = None
        except Exception as e:  # noqa: BLE001
            err = e
    finally:
        c08._FC_ON[0] = False
    hits = [a for (k, a, kw) in vp_sink.LOG if k == "hit"]
    vp_sink.reset()
    st.inc("loads")
    if err is not None:
        out.violate(PROP, f"C16|load-fails|{type(err).__name__}|{_pk(pname)}", f"{tag}: torch.load of the injected file raised {type(err).__name__}: {err}", rp, 1)
        return out
    if want_args is not None:
        if len(hits) != 1:
            out.violate(PROP, f"C16|payload-runs|{len(hits)}|{_pk(pname)}", f"{tag}: payload ran {len(hits)} times", rp, 1)
        elif tuple(hits[0]) != tuple(want_args):
            out.violate(PROP, f"C16|payload-args|{_pk(pname)}", f"{tag}: payload delivered {hits[0]!r}, expected {want_args!r}", rp, 1)
    if not overwrite:
        # a second, independent injection into the same unchanged input must give the same archive (no state carried
        # from one wrapper / injection to the next)
        dst2 = os.path.join(d, "out2.pt")
        if os.path.exists(dst2):
            os.remove(dst2)
        try:
            with redirect_stdout(io.StringIO()), redirect_stderr(io.StringIO()):
                PyTorchModelWrapper(src).inject_payload(payload, dst2, injection="insertion", overwrite=False)
            with zipfile.ZipFile(dst2) as z:
                again = z.read(pkl_name)
            st.inc("repeat_injections")
            if again != expect_pkl:
                n1 = expect_pkl.count(b"builtins\nexec") or expect_pkl.count(b"exec")
                n2 = again.count(b"builtins\nexec") or again.count(b"exec")
                out.violate(PROP, "C16|repeat-injection-differs", f"{tag}: a second injection into the same unchanged file gives a different "
                            f"data.pkl (exec occurrences {n1} -> {n2})", rp, 1)
        except Exception as e:  # noqa: BLE001
            out.violate(PROP, f"C16|repeat-injection-raises|{type(e).__name__}", f"{tag}: second injection raised {type(e).__name__}: {e}", rp, 1)
        finally:
            if os.path.exists(dst2):
                os.remove(dst2)
        # the same payload injected again into the *injected* file: one more call, on top of the first
        dst3 = os.path.join(d, "out3.pt")
        if os.path.exists(dst3):
            os.remove(dst3)
        try:
            ref2 = fk.Pickled.load(members1[pkl_name])
            ref2.insert_python_exec(payload)
            with redirect_stdout(io.StringIO()), redirect_stderr(io.StringIO()):
                PyTorchModelWrapper(dst).inject_payload(payload, dst3, injection="insertion", overwrite=False)
            with zipfile.ZipFile(dst3) as z:
                chained = z.read(pkl_name)
            st.inc("chained_injections")
            if chained != ref2.dumps():
                out.violate(PROP, "C16|chained-injection-differs", f"{tag}: injecting the payload again into the injected file does not give "
                            f"insert_python_exec applied to that file's data.pkl (exec occurrences {chained.count(b'exec')} vs {ref2.dumps().count(b'exec')})", rp, 1)
        except Exception as e:  # noqa: BLE001
            out.violate(PROP, f"C16|chained-injection-raises|{type(e).__name__}", f"{tag}: injection into the injected file raised {type(e).__name__}: {e}", rp, 1)
        finally:
            if os.path.exists(dst3):
                os.remove(dst3)
    diff = same_model(obj, loaded)
    if diff:
        out.violate(PROP, f"C16|model-differs|{oname.split('-')[0]}", f"{tag}: loaded object differs from the original: {diff}", rp, 1)
    else:
        st.inc("model_preserved")
    out.outcomes.add((oname, pname, overwrite))
    return out


def _pk(pname):
    return pname.split("[")[0]


def check(tier):
    rep = Report(PROP, tier)
    objs = list(objects(tier).items())
    pays = payloads(tier)
    with e3.Scratch("c16") as wd:
        items = [((on, None), p, ow, wd) for (on, _f), p, ow in itertools.product(objs, pays, (False, True))]
        e3.pmap(_case, items, rep, chunksize=4)
    e3.finish_counts(rep, len(items), rep.cov.get("injections", 0) + rep.cov.get("loads", 0), len(items))
    rep.set("objects", [o for o, _ in objs])
    rep.set("payloads", len(pays))
    rep.set("rule", "saved objects x payload strings x overwrite in {False, True}: PyTorchModelWrapper.inject_payload(injection='insertion') on a file "
                    "written by torch.save; zip member list/bytes, data.pkl vs library injection, sha256 of the input, torch.load(weights_only=False) "
                    "of the result under a sink and a find_class monitor")
    rep.sample({"object": "shared-storage", "payload": "import vp_sink; vp_sink.hit('é')", "overwrite": True})
    rep.assumptions += ["the torch build in this image (2.14) writes the zip layout the wrapper expects", "payloads only call the harmless sink"]
    return rep.finish()


def replay(path):
    print(json.load(open(path))["case"])
    return 0
