"""C18  CLI on stacked pickles: injection is local, decompilation is one valid Python program."""
import ast
import io
import itertools
import json
import os
import pickle
import re
import sys

from .. import corpus, e1, e3, refvm
from ..asm import asm, split_stack
from ..common import Report
from .c06 import RawNonSeekable

PROP = "C18"


def corpus5():
    import vp_objs

    return {
        "list": pickle.dumps([1, 2, 3], protocol=3),
        "instance": pickle.dumps(vp_objs.Plain(a=1, b=[2]), protocol=2),
        "reduce": asm(("GLOBAL", ("os", "system")), "MARK", ("STRING", "x"), "TUPLE", "REDUCE", "STOP"),
        "proto0-dict": pickle.dumps({"k": [1, "v"]}, protocol=0),
        "frozenset": pickle.dumps(frozenset([1, 2]), protocol=4),
        "set-p4": pickle.dumps({1}, protocol=4),
        "ordered": pickle.dumps(__import__("collections").OrderedDict(a=1), protocol=4),
        # reads its own memo (BINGET of a class and of a repeated string): exposes memo state leaking between stacked pickles
        "short-frame-p4": asm(("PROTO", 4), ("FRAME", 3), ("BININT1", 5), "POP", ("SHORT_BINUNICODE", "after the frame"), "STOP"),
        "atom-p0": b"N.",
        # text that only encodes with surrogatepass (the pickler writes it, strict UTF-8 re-encoding does not)
        "surrogate-p3": pickle.dumps(["a\udc80b", 1], protocol=3),
        "int-p0": b"I7\n.",
        "shared-p4": pickle.dumps([vp_objs.Plain(a=1), vp_objs.Plain(a=2), "rep", "rep"], protocol=4),
    }


class _Out:
    def __init__(self):
        self.buffer = io.BytesIO()
        self._t = io.StringIO()

    def write(self, s):
        self.buffer.write(s.encode("utf-8"))
        return len(s)

    def flush(self):
        pass

    def isatty(self):
        return False


class _In:
    def __init__(self, data):
        self.buffer = io.BufferedReader(RawNonSeekable(data))


def run_cli(argv, stdin_bytes=None):
    from fickling import cli

    out, err = _Out(), io.StringIO()
    so, se, si = sys.stdout, sys.stderr, sys.stdin
    sys.stdout, sys.stderr = out, err
    if stdin_bytes is not None:
        sys.stdin = _In(stdin_bytes)
    try:
        try:
            rc = cli.main(["fickling"] + argv)
        except SystemExit as e:
            rc = e.code if isinstance(e.code, int) else 2
        except Exception as e:  # noqa: BLE001
            rc = f"{type(e).__name__}: {e}"
    finally:
        sys.stdout, sys.stderr, sys.stdin = so, se, si
    return rc, out.buffer.getvalue(), err.getvalue()


def _inject(item):
    import fickling.fickle as fk

    names, parts, wd = item
    out = e1.Out()
    st = out.stats
    n = len(parts)
    data = b"".join(parts)
    path = os.path.join(wd, f"s-{os.getpid()}.pkl")
    with open(path, "wb") as f:
        f.write(data)
    payload = "print('vp-injected')"
    # without --inject-target the documented default is pickle 0
    rc0, so0, _se0 = run_cli(["--inject", payload, path])
    rcx, sox, _sex = run_cli(["--inject", payload, "--inject-target", "0", path])
    st.inc("cli_inject_runs", 2)
    if (rc0, so0) != (rcx, sox):
        out.violate(PROP, "C18|default-target", f"stack {list(names)}: omitting --inject-target does not behave like --inject-target 0",
                    {"engine": "E3", "stack": list(names), "argv": ["--inject", payload], "via": "file", "bytes": data}, n)
    for target, run_last, replace, via in itertools.product(range(n + 2), (False, True), (False, True), ("file", "stdin")):
        argv = ["--inject", payload, "--inject-target", str(target)]
        if run_last:
            argv.append("--run-last")
        if replace:
            argv.append("--replace-result")
        if via == "file":
            rc, so, se = run_cli(argv + [path])
        else:
            rc, so, se = run_cli(argv, stdin_bytes=data)
        st.inc("cli_inject_runs")
        cfg = f"target={target},run_last={int(run_last)},replace={int(replace)},{via}"
        rp = {"engine": "E3", "stack": list(names), "argv": argv, "via": via, "bytes": data}
        if target >= n:
            if rc == 0 or so:
                out.violate(PROP, f"C18|out-of-range|{'rc0' if rc == 0 else 'emits'}|{via}",
                            f"stack {list(names)} {cfg}: rc={rc}, {len(so)} bytes emitted for an out-of-range target", rp, n)
            else:
                st.inc("out_of_range_refused")
            continue
        if rc != 0:
            out.violate(PROP, f"C18|inject-fails|{names[target]}|{via}", f"stack {list(names)} {cfg}: rc={rc} stderr={se[-200:]!r}", rp, n)
            continue
        try:
            got = split_stack(so)
        except Exception as e:  # noqa: BLE001
            out.violate(PROP, f"C18|output-not-a-stack|{via}", f"stack {list(names)} {cfg}: output does not split into pickles: {e}", rp, n)
            continue
        if len(got) != n:
            out.violate(PROP, f"C18|output-count|{n}->{len(got)}", f"stack {list(names)} {cfg}: {len(got)} pickles emitted for {n}", rp, n)
            continue
        bad = [i for i in range(n) if i != target and got[i] != parts[i]]
        if bad:
            where = "before" if bad[0] < target else "after"
            out.violate(PROP, f"C18|neighbour-changed|{where}", f"stack {list(names)} {cfg}: pickle #{bad[0]} (not the target) differs from the input", rp, n)
            continue
        ref = fk.Pickled.load(parts[target])
        ref.insert_python_eval(payload, run_first=not run_last, use_output_as_unpickle_result=replace)
        if got[target] != ref.dumps():
            out.violate(PROP, f"C18|target-differs|run_last={int(run_last)},replace={int(replace)}",
                        f"stack {list(names)} {cfg}: injected pickle differs from the library's insert_python_eval on pickle #{target} alone", rp, n)
            continue
        st.inc("inject_ok")
    return out


def _decompile(item):
    from ..stubworld import run_source

    names, parts, wd = item
    out = e1.Out()
    st = out.stats
    n = len(parts)
    data = b"".join(parts)
    path = os.path.join(wd, f"d-{os.getpid()}.pkl")
    with open(path, "wb") as f:
        f.write(data)
    rp = {"engine": "E3", "stack": list(names), "bytes": data, "mode": "decompile"}
    for via in ("file", "stdin"):
        rc, so, se = run_cli([path] if via == "file" else [], stdin_bytes=None if via == "file" else data)
        st.inc("cli_decompile_runs")
        if rc != 0:
            out.violate(PROP, f"C18|decompile-fails|{via}", f"stack {list(names)}: rc={rc} {se[-200:]!r}", rp, n)
            continue
        text = so.decode("utf-8")
        try:
            tree = ast.parse(text)
        except SyntaxError as e:
            kind = next((nm for nm in names if nm in ("frozenset",)), "other")
            out.violate(PROP, f"C18|not-a-program|{kind}", f"stack {list(names)}: CLI output is not valid Python: {e}", rp, n)
            continue
        assigned = {}
        for node in ast.walk(tree):
            if isinstance(node, ast.Assign):
                for t in node.targets:
                    if isinstance(t, ast.Name):
                        assigned[t.id] = assigned.get(t.id, 0) + 1
        dup = sorted(k for k, c in assigned.items() if re.fullmatch(r"_var\d+", k) and c > 1)
        if dup:
            out.violate(PROP, "C18|variable-reused", f"stack {list(names)}: variables assigned more than once: {dup[:4]}", rp, n)
            continue
        missing = [f"result{i}" for i in range(n) if assigned.get(f"result{i}") != 1]
        if missing:
            out.violate(PROP, "C18|result-names", f"stack {list(names)}: result names not bound exactly once: {missing}", rp, n)
            continue
        try:
            w, ns = run_source(text)
        except Exception as e:  # noqa: BLE001
            out.violate(PROP, f"C18|program-does-not-run|{type(e).__name__}", f"stack {list(names)}: {type(e).__name__}: {e}", rp, n)
            continue
        for i, part in enumerate(parts):
            vm = refvm.RefVM(part)
            vm.run()
            want = refvm.canon(vm.result)
            got = refvm.canon(dict.__getitem__(ns, f"result{i}"))
            if got != want:
                out.violate(PROP, f"C18|result-value|{names[i]}", f"stack {list(names)}: result{i} is {str(got)[:120]}, pickle #{i} builds {str(want)[:120]}", rp, n)
                break
        else:
            st.inc("decompile_ok")
    # --trace: same program at the end of each pickle's trace, every result bound
    rc, so, se = run_cli(["--trace", path])
    st.inc("cli_trace_runs")
    if rc != 0:
        out.violate(PROP, "C18|trace-fails", f"stack {list(names)}: --trace rc={rc} {se[-200:]!r}", rp, n)
    else:
        text = so.decode("utf-8")
        for i in range(n):
            if not re.search(rf"^result{i} = ", text, re.M):
                out.violate(PROP, "C18|trace-result-names", f"stack {list(names)}: --trace output does not bind result{i}", rp, n)
                break
    return out


def check(tier):
    rep = Report(PROP, tier)
    c5 = corpus5()
    kmax = 4 if tier == "thorough" else 3
    names5 = list(c5) if tier == "thorough" else ["list", "instance", "reduce", "proto0-dict", "frozenset", "shared-p4", "atom-p0", "short-frame-p4", "surrogate-p3"]
    stacks = []
    for k in range(1, kmax + 1):
        pool = names5 if k < 4 else names5[:4]
        for combo in itertools.product(pool, repeat=k):
            stacks.append((combo, [c5[x] for x in combo]))
    with e3.Scratch("c18") as wd:
        e3.pmap(_inject, [(a, b, wd) for a, b in stacks], rep, chunksize=2)
        e3.pmap(_decompile, [(a, b, wd) for a, b in stacks], rep, chunksize=2)
    runs = sum(rep.cov.get(k, 0) for k in ("cli_inject_runs", "cli_decompile_runs", "cli_trace_runs"))
    e3.finish_counts(rep, runs, runs, len(stacks))
    rep.set("corpus", names5)
    rep.set("max_stack", kmax)
    rep.set("rule", "all stacks of 1..max_stack pickles over the corpus x targets 0..n+1 x run-last x replace-result x {file, non-seekable stdin}; "
                    "plain and --trace decompilation of every stack; CLI run in-process with captured binary stdout")
    rep.sample({"stack": ["list", "reduce"], "argv": ["--inject", "print('vp-injected')", "--inject-target", "1", "--run-last"]})
    rep.assumptions += ["stdout split into pickles by an independent pickletools.genops scan",
                        "decompiled program executed against inert stubs; each resultN compared with the reference VM's value for that pickle"]
    return rep.finish()


def replay(path):
    case = json.load(open(path))["case"]
    data = bytes.fromhex(case["bytes"]["hex"])
    if case.get("mode") == "decompile":
        rc, so, se = run_cli([], stdin_bytes=data)
    else:
        rc, so, se = run_cli(case["argv"], stdin_bytes=data)
    print("rc", rc)
    print(so[:2000])
    print(se[:500])
    return 0
