"""C06  Parse / re-serialise is byte-exact; stacked pickles partition the input."""
import io
import itertools
import json
import os
import pickle

from .. import corpus, e1, e3
from ..asm import asm, first_pickle_len, strip_frames
from ..common import Report

PROP = "C06"


class RawNonSeekable(io.RawIOBase):
    def __init__(self, data):
        self._b = io.BytesIO(data)

    def readable(self):
        return True

    def seekable(self):
        return False

    def readinto(self, b):
        return self._b.readinto(b)

    def seek(self, *a):
        raise io.UnsupportedOperation("seek")

    def tell(self):
        raise io.UnsupportedOperation("tell")


def boundary_programs():
    """Hand-assembled programs with every argument-carrying opcode at boundary lengths."""
    out = []

    def add(tag, *items):
        out.append((tag, asm(*items, "STOP")))

    for n in (0, 1, 255):
        add(f"SHORT_BINUNICODE[{n}]", ("SHORT_BINUNICODE", "x" * n))
        add(f"SHORT_BINBYTES[{n}]", ("SHORT_BINBYTES", b"y" * n))
        add(f"SHORT_BINSTRING[{n}]", ("SHORT_BINSTRING", b"z" * n))
    for n in (0, 255, 256, 65535, 65536):
        add(f"BINUNICODE[{n}]", ("BINUNICODE", "x" * n))
        add(f"BINBYTES[{n}]", ("BINBYTES", b"y" * n))
        add(f"BINSTRING[{n}]", ("BINSTRING", b"z" * n))
    for n in (0, 1, 256):
        add(f"BINUNICODE8[{n}]", ("BINUNICODE8", "x" * n))
        add(f"BINBYTES8[{n}]", ("BINBYTES8", b"y" * n))
    for v in (0, 1, -1, 255, 256, 2**63, -(2**63), 2**2039 - 1):
        add(f"LONG1[{v.bit_length()}b]", ("LONG1", v))
    for v in (0, 5, -(2**40), 2**2100):
        add(f"LONG4[{v.bit_length()}b]", ("LONG4", v))
    # a PROTO header that understates the opcodes that follow (the stock unpicklers do not care)
    for ver in (0, 1, 2, 3):
        add(f"PROTO{ver}+SHORT_BINUNICODE+MEMOIZE", ("PROTO", ver), ("SHORT_BINUNICODE", "abc"), "MEMOIZE")
        add(f"PROTO{ver}+EMPTY_SET", ("PROTO", ver), "EMPTY_SET")
        add(f"PROTO{ver}+BINBYTES", ("PROTO", ver), ("BINBYTES", b"xy"))
    add("INT", ("INT", 7))
    add("INT-neg", ("INT", -12345678901234567890))
    add("INT-true", ("INT", True))
    add("LONG", ("LONG", 10**25))
    add("BININT", ("BININT", -2))
    add("BININT1", ("BININT1", 255))
    add("BININT2", ("BININT2", 65535))
    add("BINFLOAT", ("BINFLOAT", -0.0))
    add("BINFLOAT+0", ("BINFLOAT", 0.0))
    add("BINFLOAT-both-zeros", "MARK", ("BINFLOAT", 0.0), ("BINFLOAT", -0.0), ("BINFLOAT", 0.0), "TUPLE")
    add("BINFLOAT-both-zeros-rev", "MARK", ("BINFLOAT", -0.0), ("BINFLOAT", 0.0), "TUPLE")
    add("BININT-true-vs-1", "MARK", ("INT", True), ("INT", 1), ("BININT1", 1), "NEWTRUE", "TUPLE")
    add("STRING", ("STRING", "plain"))
    add("STRING-esc", ("STRING", "q'\\n\"x"))
    add("UNICODE", ("UNICODE", "plain"))
    add("UNICODE-esc", ("UNICODE", "é\n\\€\U0001f600"))
    add("GLOBAL", ("GLOBAL", ("os.path", "join")))
    add("INST", "MARK", ("INST", ("m", "C")))
    add("PUT-GET", "NONE", ("PUT", 321987), "POP", ("GET", 321987))
    add("BINPUT-BINGET", "NONE", ("BINPUT", 255), "POP", ("BINGET", 255))
    add("LONG_BINPUT-GET", "NONE", ("LONG_BINPUT", 70000), "POP", ("LONG_BINGET", 70000))
    add("PROTO0", ("PROTO", 0), "NONE")
    add("PROTO5", ("PROTO", 5), "NONE")
    add("PROTO-dup", ("PROTO", 2), ("PROTO", 4), "NONE")
    add("FRAME", ("PROTO", 4), ("FRAME", 2), "NONE")
    add("FRAME-nested-data", ("PROTO", 4), ("FRAME", 6), ("SHORT_BINUNICODE", "ab"), "MEMOIZE")
    # frames that do not tile the pickle: bytes after a frame's end, an unframed opcode between frames, empty frames
    add("FRAME-partial", ("PROTO", 4), ("FRAME", 1), "NONE", "POP", "NONE")
    add("FRAME-gap", ("PROTO", 4), ("FRAME", 2), "NONE", "POP", ("BININT1", 7), "POP", ("FRAME", 1), "NONE")
    add("FRAME-empty", ("PROTO", 4), ("FRAME", 0), "NONE")
    add("FRAME-too-long", ("PROTO", 4), ("FRAME", 300), "NONE")
    add("FRAME-two", ("PROTO", 5), ("FRAME", 2), "NONE", "POP", ("FRAME", 1), "NONE")
    out.append(("big-out-of-frame-p4", __import__("pickle").dumps(("head", b"x" * 70000, "tail!"), protocol=4)))
    out.append(("big-out-of-frame-p5", __import__("pickle").dumps(["h", "y" * 66000, {"k": b"z" * 65536}], protocol=5)))
    add("PERSID-less", "EMPTY_TUPLE", "BINPERSID")
    add("all-noarg", "MARK", "NONE", "NEWTRUE", "NEWFALSE", "EMPTY_LIST", "EMPTY_DICT", "EMPTY_SET", "EMPTY_TUPLE", "TUPLE", "DUP", "POP")
    add("sets", "EMPTY_SET", "MARK", ("BININT1", 1), "ADDITEMS", "MARK", ("BININT1", 2), "FROZENSET", "TUPLE2")
    add("stack_global", ("SHORT_BINUNICODE", "m"), ("SHORT_BINUNICODE", "n"), "STACK_GLOBAL", "EMPTY_TUPLE", "NEWOBJ", "EMPTY_DICT", "BUILD")
    add("newobj_ex", ("GLOBAL", ("m", "C")), "EMPTY_TUPLE", "EMPTY_DICT", "NEWOBJ_EX")
    add("obj", "MARK", ("GLOBAL", ("m", "C")), "OBJ")
    return out


TRAILERS = {"none": b"", "nul": b"\x00", "garbage": b"garbage.", "pickle": pickle.dumps("next", protocol=2),
            "opcode-prefix": b"\x80",
            # line-oriented storage: one pickle per line (the newline belongs to the caller, not to the pickle)
            "newline+pickle": b"\n" + pickle.dumps("next", protocol=0), "crlf": b"\r\n"}
DELIVERIES = ("bytes", "bytearray", "BytesIO", "BytesIO@3", "file", "file-r+b", "spooled", "custom-seekable", "nonseekable",
              "nonseekable-short-reads", "buffered-nonseekable")


class RawShortReads(io.RawIOBase):
    """Non-seekable stream that legally hands out at most 7 bytes per read (like a pipe or socket)."""

    def __init__(self, data):
        self._b = io.BytesIO(data)

    def readable(self):
        return True

    def seekable(self):
        return False

    def readinto(self, b):
        n = min(7, len(b))
        chunk = self._b.read(n)
        b[:len(chunk)] = chunk
        return len(chunk)

    def read(self, n=-1):
        if n is None or n < 0:
            return super().read(n)
        return self._b.read(min(n, 7))


class RawSeekable(io.RawIOBase):
    """A user-defined seekable stream that is none of the io module's concrete classes."""

    def __init__(self, data):
        self._b = io.BytesIO(data)

    def readable(self):
        return True

    def seekable(self):
        return True

    def readinto(self, b):
        return self._b.readinto(b)

    def seek(self, pos, whence=0):
        return self._b.seek(pos, whence)

    def tell(self):
        return self._b.tell()


def pickles(tier):
    out = list(boundary_programs())
    vals = corpus.plain_values("quick")
    step = 3 if tier == "quick" else 1
    for i, v in enumerate(vals[::step]):
        for tag, b in corpus.pickles_of(v):
            out.append((f"plain[{i}]/{tag}", b))
    for i, v in enumerate(corpus.object_values()):
        for tag, b in corpus.pickles_of(v):
            out.append((f"obj[{i}]/{tag}", b))
    return out


def _parse(item):
    import fickling.fickle as fk

    tag, data, wd = item
    out = e1.Out()
    st = out.stats
    n = first_pickle_len(data)
    assert n == len(data), tag
    # reference stopping point: the stock unpicklers
    reg = fk.OPCODES_BY_NAME
    import pickletools

    opnames = [i.name for i, _a, _p in pickletools.genops(data)]
    unsupported = [o for o in opnames if o not in reg]
    for (tname, trailer), delivery in itertools.product(TRAILERS.items(), DELIVERIES):
        buf = data + trailer
        rp = {"engine": "E3", "pickle": tag, "trailer": tname, "delivery": delivery, "bytes": buf}
        st.inc("parses")
        stream = None
        f = None
        if delivery == "bytes":
            src = bytes(buf)
        elif delivery == "bytearray":
            src = bytearray(buf)
        elif delivery == "BytesIO":
            src = stream = io.BytesIO(buf)
        elif delivery == "BytesIO@3":
            src = stream = io.BytesIO(b"\xff\xfe\xfd" + buf)
            stream.seek(3)
        elif delivery == "file":
            path = os.path.join(wd, f"p-{os.getpid()}.bin")
            with open(path, "wb") as fh:
                fh.write(buf)
            src = stream = f = open(path, "rb")
        elif delivery == "file-r+b":
            path = os.path.join(wd, f"p-{os.getpid()}.bin")
            with open(path, "wb") as fh:
                fh.write(buf)
            src = stream = f = open(path, "r+b")
        elif delivery == "spooled":
            import tempfile

            src = stream = f = tempfile.SpooledTemporaryFile(max_size=1 << 20)
            f.write(buf)
            f.seek(0)
        elif delivery == "custom-seekable":
            src = stream = RawSeekable(buf)
        elif delivery == "nonseekable-short-reads":
            src = stream = RawShortReads(buf)
        elif delivery == "nonseekable":
            src = stream = RawNonSeekable(buf)
        else:
            src = stream = io.BufferedReader(RawNonSeekable(buf))
        keep = bytes(buf)
        try:
            try:
                p = fk.Pickled.load(src)
            except NotImplementedError:
                if unsupported:
                    st.inc("refused_unsupported_opcode")
                    continue
                raise
            except Exception as e:  # noqa: BLE001
                out.violate(PROP, f"C06|parse-fails|{delivery}|{type(e).__name__}",
                            f"{tag} + trailer {tname} via {delivery}: Pickled.load raised {type(e).__name__}: {e}", rp, len(data))
                continue
            try:
                dumped = p.dumps()
            except Exception as e:  # noqa: BLE001
                out.violate(PROP, f"C06|dumps-raises|{type(e).__name__}", f"{tag} via {delivery}: dumps() of the untouched parse raised {type(e).__name__}: {e}",
                            rp, len(data))
                continue
            if dumped != data:
                k = next((i for i, (a, b) in enumerate(zip(dumped, data)) if a != b), min(len(dumped), len(data)))
                bad = _op_at(data, k)
                out.violate(PROP, f"C06|dumps-differs|{bad}",
                            f"{tag} via {delivery} (trailer {tname}): dumps() has {len(dumped)} bytes, pickle has {len(data)}; first difference at {k} ({bad})",
                            rp, len(data))
            else:
                st.inc("byte_exact")
            bio = io.BytesIO()
            p.dump(bio)
            if bio.getvalue() != dumped:
                out.violate(PROP, "C06|dump-vs-dumps", f"{tag}: dump() and dumps() differ", rp, len(data))
            if isinstance(src, (bytes, bytearray)):
                if bytes(src) != keep:
                    out.violate(PROP, f"C06|buffer-modified|{delivery}", f"{tag}: the caller's buffer was modified", rp, len(data))
                continue
            off = 3 if delivery == "BytesIO@3" else 0
            if delivery in ("BytesIO", "BytesIO@3", "file", "file-r+b", "spooled", "custom-seekable"):
                pos = stream.tell()
                if pos != off + n:
                    out.violate(PROP, f"C06|stream-position|{delivery}|{tname}",
                                f"{tag} via {delivery}: stream at {pos}, first pickle ends at {off + n}", rp, len(data))
            rest = stream.read()
            if rest != trailer:
                out.violate(PROP, f"C06|trailer-consumed|{delivery}",
                            f"{tag} via {delivery}: {len(trailer)} bytes follow the pickle but {len(rest)} remain readable from the caller's stream",
                            rp, len(data))
            else:
                st.inc("trailer_intact")
            if delivery in ("BytesIO", "BytesIO@3") and stream.getvalue() != (b"\xff\xfe\xfd" if off else b"") + keep:
                out.violate(PROP, f"C06|buffer-modified|{delivery}", f"{tag}: stream content modified", rp, len(data))
        finally:
            if f is not None:
                f.close()
    return out


def _op_at(data, k):
    import pickletools

    last = "?"
    for info, _a, pos in pickletools.genops(data):
        if pos > k:
            break
        last = info.name
    return last


def _stack(item):
    import fickling.fickle as fk

    tags, parts, delivery = item
    out = e1.Out()
    out.stats.inc("stacks")
    buf = b"".join(parts)
    rp = {"engine": "E3", "stack": list(tags), "delivery": delivery, "bytes": buf}
    src = buf if delivery == "bytes" else (io.BytesIO(buf) if delivery == "BytesIO" else
                                            (RawShortReads(buf) if delivery == "short-reads" else RawNonSeekable(buf)))
    try:
        sp = fk.StackedPickle.load(src)
    except Exception as e:  # noqa: BLE001
        out.violate(PROP, f"C06|stack-parse-fails|{type(e).__name__}", f"stack {tags}: {type(e).__name__}: {e}", rp, len(parts))
        return out
    if len(sp) != len(parts):
        out.violate(PROP, f"C06|stack-count|{len(parts)}->{len(sp)}", f"stack {tags} via {delivery}: {len(sp)} elements for {len(parts)} pickles",
                    rp, len(parts))
        return out
    for i, (p, want) in enumerate(zip(sp, parts)):
        if p.dumps() != want:
            out.violate(PROP, f"C06|stack-element-bytes|{i}", f"stack {tags}: element {i} does not re-serialise to its own bytes", rp, len(parts))
            return out
    if b"".join(p.dumps() for p in sp) != buf:
        out.violate(PROP, "C06|stack-concat", f"stack {tags}: concatenated parts differ from the input", rp, len(parts))
    return out


def check(tier):
    rep = Report(PROP, tier)
    pk = pickles(tier)
    with e3.Scratch("c06") as wd:
        e3.pmap(_parse, [(t, b, wd) for t, b in pk], rep, chunksize=16)
    sub = [("list-p2", pickle.dumps([1, 2], 2)), ("str-p0", pickle.dumps("s", 0)), ("dict-p4", pickle.dumps({"a": 1}, 4)),
           ("none", b"N."), ("obj-p3", pickle.dumps(corpus.object_values()[1], 3)),
           ("noframe-p5", strip_frames(pickle.dumps((1, "a"), 5))), ("stop-only-ish", asm(("BININT1", 0), "STOP"))]
    kmax = 4 if tier == "thorough" else 3
    stacks = []
    for k in range(1, kmax + 1):
        for combo in itertools.product(sub, repeat=k):
            for d in ("bytes", "BytesIO", "nonseekable", "short-reads"):
                stacks.append((tuple(t for t, _ in combo), [b for _, b in combo], d))
    e3.pmap(_stack, stacks, rep, chunksize=64)
    npoints = len(pk) * len(TRAILERS) * len(DELIVERIES) + len(stacks)
    e3.finish_counts(rep, npoints, rep.cov.get("parses", 0) + rep.cov.get("stacks", 0), len(pk) + len(stacks))
    rep.set("pickles", len(pk))
    rep.set("trailers", list(TRAILERS))
    rep.set("deliveries", list(DELIVERIES))
    rep.set("max_stack", kmax)
    rep.set("rule", "every corpus/boundary pickle x trailer x delivery parsed by Pickled.load; dumps() compared with the prefix ending at the STOP "
                    "located by pickletools.genops; stream position and remaining bytes compared; all stacks of 1..max_stack pickles from a 7-element "
                    "sub-corpus x 3 deliveries")
    rep.sample({"pickle": "BINUNICODE[65536]", "trailer": "pickle", "delivery": "BytesIO@3"})
    rep.assumptions += ["the first pickle ends at the STOP found by pickletools.genops (cross-checked with pickle.loads accepting the prefix)"]
    return rep.finish()


def replay(path):
    import fickling.fickle as fk

    case = json.load(open(path))["case"]
    buf = bytes.fromhex(case["bytes"]["hex"])
    n = first_pickle_len(buf)
    p = fk.Pickled.load(io.BytesIO(buf))
    same = p.dumps() == buf[:n]
    print("first pickle", n, "bytes; dumps()", len(p.dumps()), "equal:", same)
    return 0 if same else 1
