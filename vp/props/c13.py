"""C13  Answers depend only on the bytes: deterministic, repeatable, no observer effect."""
import ast
import hashlib
import itertools
import json
import os
import subprocess
import sys
import tempfile

from .. import e1, e3
from ..asm import G, INST, SG, alphabet
from ..common import VERIF, Report, ncpu, seed

PROP = "C13"

QUERIES = ("unparse", "check_safety", "trace", "summaries", "dumps", "reparse")
# finer-grained read-only queries: each summary accessor on its own (an accessor may answer differently
# depending on which cache another accessor has already filled)
FINE = ("unparse", "check_safety", "trace", "has_import", "has_call", "has_non_setstate_call", "unsafe_imports",
        "non_standard_imports", "properties", "dumps", "reparse", "own_interpreter")


def ask(p, q):
    """Returns (answer, p') - p' differs from p only for 'reparse'."""
    import fickling.fickle as fk
    from fickling.analysis import check_safety
    from fickling.tracing import Trace

    if q == "unparse":
        return ast.unparse(p.ast), p
    if q == "check_safety":
        res = check_safety(p)
        return (res.severity.name, frozenset((r.analysis_name, r.severity.name, r.message) for r in res.results)), p
    if q == "trace":
        tree, printed = e1.capture_stdout(lambda: Trace(fk.Interpreter(p)).run())
        return (printed, ast.unparse(tree)), p
    if q == "summaries":
        pr = p.properties
        return (p.has_import, p.has_call, p.has_non_setstate_call,
                tuple(ast.unparse(n) for n in p.unsafe_imports()),
                tuple(ast.unparse(n) for n in p.non_standard_imports()),
                tuple(sorted(pr.likely_safe_imports)), len(pr.imports), len(pr.calls)), p
    if q == "has_import":
        return p.has_import, p
    if q == "has_call":
        return p.has_call, p
    if q == "has_non_setstate_call":
        return p.has_non_setstate_call, p
    if q == "unsafe_imports":
        return tuple(ast.unparse(n) for n in p.unsafe_imports()), p
    if q == "non_standard_imports":
        return tuple(ast.unparse(n) for n in p.non_standard_imports()), p
    if q == "properties":
        pr = p.properties
        return (tuple(ast.unparse(n) for n in pr.imports), len(pr.calls), len(pr.non_setstate_calls),
                tuple(sorted(pr.likely_safe_imports))), p
    if q == "own_interpreter":
        # what the CLI does for the members of a stack: an interpreter with its own variable numbering and result name
        return ast.unparse(fk.Interpreter(p, first_variable_id=7, result_variable="result1").to_ast()), p
    if q == "dumps":
        return p.dumps(), p
    if q == "reparse":
        return None, fk.Pickled.load(p.dumps())
    raise KeyError(q)


def safe_ask(p, q):
    try:
        return ("ok",) + ask(p, q)
    except RecursionError:
        return ("exc", "RecursionError", p)
    except Exception as e:  # noqa: BLE001
        return ("exc", type(e).__name__, p)


def baseline(data):
    import fickling.fickle as fk

    base = {}
    for q in sorted(set(QUERIES) | set(FINE)):
        if q == "reparse":
            continue
        try:
            p = fk.Pickled.load(data)
        except Exception as e:  # noqa: BLE001
            base[q] = ("exc", "parse:" + type(e).__name__)
            continue
        r = safe_ask(p, q)
        base[q] = r[:2]
    return base


def suspect(data):
    import pickletools

    from ..oracles import suspect_from_names

    return suspect_from_names({i.name for i, _a, _p in pickletools.genops(data)})


def repeat_oracle(term, out):
    import fickling.fickle as fk

    L = term.cfg.opts.get("seqlen", 3)
    data = term.data
    base = baseline(data)
    if base["unparse"][0] != "ok":
        out.stats.inc("undecompilable_skipped")
        return
    out.stats.inc("programs_queried")
    out.outcomes.add(("answers", hash((base["unparse"][1], base["check_safety"][1])) & 0xFFFF))
    # the same bytes met as a later member of a stacked file: same answers
    try:
        sp = list(fk.StackedPickle.load(b"N." + data))
    except Exception:  # noqa: BLE001
        sp = []
    if len(sp) == 2:
        out.stats.inc("stack_member_comparisons")
        for q in ("check_safety", "unparse", "summaries", "dumps"):
            r = safe_ask(sp[1], q)
            if r[:2] != base[q]:
                out.violate(PROP, f"C13|stack-member|{q}|{suspect(data)}",
                            f"parsed as the second member of a stacked file, the answer to {q!r} differs from the answer for the same bytes "
                            f"parsed alone: {_diff(base[q], r[:2])}",
                            {"engine": "E1", "program": term.cfg.labels(term.seq) + ["STOP"], "bytes": data, "history": ["stack-member", q]},
                            len(term.seq) * 10)
                return
    seqs = [s for s in itertools.product(QUERIES, repeat=L)]
    fine = term.cfg.opts.get("fine")
    if fine == "summaries":
        acc = ("check_safety", "has_import", "has_call", "has_non_setstate_call", "unsafe_imports", "non_standard_imports", "properties")
        seqs += [s for s in itertools.product(acc, repeat=2)]
    elif fine:
        seqs += [s for s in itertools.product(FINE, repeat=2)]
    for seqq in seqs:
        # sequences ending in 'reparse' add nothing new
        if seqq[-1] == "reparse":
            continue
        p = fk.Pickled.load(data)
        out.stats.inc("histories")
        for k, q in enumerate(seqq):
            r = safe_ask(p, q)
            p = r[2]
            out.stats.inc("queries")
            if q == "reparse":
                continue
            if r[:2] != base[q]:
                hist = list(seqq[: k + 1])
                first_div = _diff(base[q], r[:2])
                out.violate(PROP, f"C13|repeat|{q}|{suspect(data)}",
                            f"after {hist[:-1]} the answer to {q!r} differs from a fresh object's first answer: {first_div}",
                            {"engine": "E1", "program": term.cfg.labels(term.seq) + ["STOP"], "bytes": data, "history": hist},
                            len(term.seq) * 10 + k)
                return
            if q == "dumps" and r[1] != data:
                out.violate(PROP, "C13|dumps-changed", "dumps() no longer equals the input bytes", term.replay(), len(term.seq))
                return


def _diff(a, b):
    sa, sb = repr(a), repr(b)
    return f"{sa[:160]} != {sb[:160]}"


def digest_oracle(term, out):
    """Child-process oracle: record a digest of every answer per program."""
    base = baseline(term.data)
    h = hashlib.blake2b(repr(sorted((k, _stable(v)) for k, v in base.items())).encode("utf-8", "backslashreplace"),
                        digest_size=8).hexdigest()
    out.table[term.data.hex()] = h


def _stable(v):
    if isinstance(v, tuple):
        return tuple(_stable(x) for x in v)
    if isinstance(v, frozenset):
        return tuple(sorted(map(repr, v)))
    return v


def macros():
    from ..asm import S, sbu

    call = [("GLOBAL", ("os", "system")), "MARK", ("UNICODE", "id"), "TUPLE", "REDUCE"]
    return [
        S("macro:call-pop", *call, "POP"),
        S("macro:call-keep", *call),
        S("macro:call2-pop", ("GLOBAL", ("subprocess", "call")), sbu("ls"), "TUPLE1", "REDUCE", "POP"),
        S("macro:obj-pop", "MARK", ("GLOBAL", ("m", "C")), sbu("a"), "OBJ", "POP"),
        S("macro:inst-pop", "MARK", ("INST", ("m", "C")), "POP"),
        S("macro:newobj-pop", ("GLOBAL", ("m", "D")), "EMPTY_TUPLE", "NEWOBJ", "POP"),
        S("macro:safe-call-pop", ("GLOBAL", ("collections", "OrderedDict")), "EMPTY_TUPLE", "REDUCE", "POP"),
        S("macro:eval-pop", ("GLOBAL", ("builtins", "eval")), sbu("1"), "TUPLE1", "REDUCE", "POP"),
        S("NONE", "NONE"),
        S("TUPLE2", "TUPLE2"),
        # two modules below one top-level package, one in the standard library and one not
        S("macro:xml-std-pop", ("GLOBAL", ("xml.etree.ElementTree", "Element")), "POP"),
        S("macro:xml-nonstd-pop", ("GLOBAL", ("xml.vp_not_in_stdlib", "factory")), "POP"),
    ]


def sigma():
    names = ("NONE K1 STR ELIST EDICT ESET ETUP MARK TUPLE T1 T2 LIST DICT FROZENSET APPEND SETITEM SETITEMS ADDITEMS "
             "POP DUP MEMOIZE BINGET0 REDUCE OBJ NEWOBJ BUILD BINPERSID PROTO2 PROTO4").split()
    return alphabet(names, [G("os", "system"), G("__builtin__", "eval"), G("vp_sink", "hit"), SG("collections", "OrderedDict"),
                            INST("m", "C")])


def corpus_items(tier):
    from .. import corpus

    vals = corpus.plain_values("quick")
    step = 9 if tier == "quick" else 2
    its = []
    for i, v in enumerate(vals[::step]):
        for tag, b in corpus.pickles_of(v, unframed=False):
            if len(b) <= 600:  # tracing is quadratic in the size of a container; long pickles add cost, not behaviours
                its.append((f"plain[{i}]/{tag}", b))
    for i, v in enumerate(corpus.object_values()[:-1]):
        for tag, b in corpus.pickles_of(v, unframed=False):
            if len(b) <= 600:
                its.append((f"obj[{i}]/{tag}", b))
    return its


class _Cfg:
    def __init__(self, opts):
        self.opts = opts

    def labels(self, seq):
        return list(seq)


def _corpus_one(item):
    tag, data, L = item
    out = e1.Out()
    term = e1.Term(_Cfg({"seqlen": L, "fine": True}), (tag,), data)
    repeat_oracle(term, out)
    return out


def ordered_programs():
    """Programs answered one after the other in a single process, in this order or reversed: the answers for one pickle
    must not depend on which other pickles the process has looked at before."""
    def asm_syms(pr):
        return b"".join(m.data for m in pr) + b"."

    ms = macros()
    progs = [[m] for m in ms] + [[a, b] for a in ms for b in ms if a is not b]
    out = [asm_syms(pr) for pr in progs]
    # constants that compare equal but are different values, each in a pickle of its own (a process-wide cache keyed by
    # equality hands the first one seen to all the others)
    import pickle

    for v in (0.0, -0.0, 1.0, True, 1, False, 0, (0.0, 1), (-0.0, True), [1.0], [True], [1]):
        for proto in (1, 2):
            out.append(pickle.dumps(v, protocol=proto))
    return out


def child_main(depth, path, corpus_path=None, reverse=False):
    """Runs in a process with its own PYTHONHASHSEED: digest table of every terminal program."""
    cfg = e1.Config(PROP, sigma(), depth, [], [digest_oracle], split=1, want_states=False)
    total, _ = e1.run(cfg, None)
    table = dict(total.table)
    # long programs with several unused variables / repeated identical calls, via macro symbols
    cfgm = e1.Config(PROP, macros(), depth + 1, [], [digest_oracle], split=1, want_states=False)
    totalm, _ = e1.run(cfgm, None)
    table.update(totalm.table)
    items = [(t, bytes.fromhex(h)) for t, h in json.load(open(corpus_path))] if corpus_path else []
    # in this process itself, one after the other (the pools above run in forked workers): forwards or backwards
    seq = ordered_programs()
    if reverse:
        items = items[::-1]
        seq = seq[::-1]
    for tag, data in [("ordered", d) for d in seq] + items:
        o = e1.Out()
        digest_oracle(e1.Term(_Cfg({}), (tag,), data), o)
        table.update(o.table)
    with open(path, "w") as f:
        json.dump(table, f)


def check(tier):
    import multiprocessing as mp

    rep = Report(PROP, tier)
    depth = 4 if tier == "thorough" else 3
    L = 3  # thorough explores deeper programs with the same history length (length 4 cost over an hour for no new behaviour)
    cfg = e1.Config(PROP, sigma(), depth, [], [repeat_oracle], split=1, opts={"seqlen": L, "fine": True})
    e1.run(cfg, rep)
    # deeper programs over a narrow alphabet (non-empty DICT/LIST/FROZENSET need >= 4 symbols), shorter histories
    from .c03 import _fold

    rep2 = Report(PROP, tier)
    narrow = alphabet("K1 STR MARK DICT LIST FROZENSET TUPLE EDICT ESET ELIST SETITEM SETITEMS ADDITEMS APPEND MEMOIZE BINGET0 REDUCE BUILD".split(),
                      [G("m", "C")])
    cfg2 = e1.Config(PROP, narrow, depth + 1, [], [repeat_oracle], split=2, opts={"seqlen": L - 1})
    e1.run(cfg2, rep2)
    _fold(rep, rep2, "narrow")
    rep3 = Report(PROP, tier)
    cfg3 = e1.Config(PROP, macros(), depth, [], [repeat_oracle], split=1, opts={"seqlen": 2})
    e1.run(cfg3, rep3)
    _fold(rep, rep3, "macro")
    its = [(t, b, 3) for t, b in corpus_items(tier)]
    total = e1.Out()
    from .. import par

    for o in par.pmap_unordered(e3._Guard(_corpus_one, PROP), its, chunksize=16):
        if isinstance(o, par.WorkerDied):
            _d = e1.Out()
            _d.violate(PROP, f"{PROP}|worker-process-died", f"{o.why} while checking {repr(o.item)[:300]}", {"item": repr(o.item)[:2000]}, 0)
            o = _d
        total.merge(o)
    for k, v in total.stats.items():
        rep.add("corpus_" + k, v)
    rep.add("evaluations", total.stats.get("histories", 0))
    for sig, lst in total.viol.items():
        rep.merge_violations(lst)
        rep.vcount[sig] = rep.vcount.get(sig, 0) - len(lst) + total.vcount[sig]
    rep.set("query_sequence_length", L)
    rep.set("queries", list(QUERIES))
    # cross-process: same digest table under different hash seeds
    seeds = [0, 1, seed() + 2]
    tables = {}
    with tempfile.TemporaryDirectory(prefix="vp-c13-") as td:
        procs = []
        cpath = os.path.join(td, "corpus.json")
        with open(cpath, "w") as f:
            # the parent's bytes: pickling a set under another hash seed would give other bytes
            json.dump([(t, b.hex()) for t, b in corpus_items("quick")], f)
        for s in seeds:
            path = os.path.join(td, f"t{s}.json")
            env = dict(os.environ, PYTHONHASHSEED=str(s), VERIF_JOBS=str(max(2, ncpu() // 3)))
            procs.append((s, path, subprocess.Popen(
                [sys.executable, "-W", "ignore", "-c",
                 f"import sys; sys.setrecursionlimit(3000); from vp.props.c13 import child_main; child_main({3 if tier == 'quick' else 4}, {path!r}, {cpath!r}, {s != seeds[0]})"],
                env=env, cwd=VERIF)))
        for s, path, pr in procs:
            rc = pr.wait()
            if rc != 0:
                rep.violate("C13|child-failed", f"digest child with PYTHONHASHSEED={s} exited {rc}", {"seed": s})
                continue
            tables[s] = json.load(open(path))
    ref = tables.get(seeds[0], {})
    rep.set("cross_process_hash_seeds", seeds)
    rep.set("cross_process_programs", len(ref))
    for s, t in tables.items():
        if s == seeds[0]:
            continue
        if set(t) != set(ref):
            rep.violate("C13|hashseed|program-set", f"different program sets under seeds {seeds[0]} and {s}", {"seed": s})
            continue
        for hx, dg in t.items():
            if ref[hx] != dg:
                data = bytes.fromhex(hx)
                rep.violate(f"C13|hashseed|{suspect(data)}",
                            f"answers for this program differ between a process with PYTHONHASHSEED={seeds[0]} and one with PYTHONHASHSEED={s} "
                            f"that met the programs in the opposite order",
                            {"engine": "hashseed", "bytes": data, "seeds": [seeds[0], s]}, len(data))
    rep.assumptions += [
        "hash-seed independence is checked for the finite seed set listed in coverage, not for all seeds",
        "the *set* of findings is compared (the property does not order findings)",
        "histories = every sequence of the six queries of the stated length on a fresh parse; each answer compared with a fresh object's first answer",
    ]
    return rep.finish()


def replay(path):
    import fickling.fickle as fk

    case = json.load(open(path))["case"]
    data = bytes.fromhex(case["bytes"]["hex"])
    base = baseline(data)
    p = fk.Pickled.load(data)
    rc = 0
    for q in case.get("history", ["unparse", "unparse"]):
        r = safe_ask(p, q)
        p = r[2]
        differs = q != "reparse" and r[:2] != base.get(q)
        print(q, "->", repr(r[:2])[:300], "| fresh:", repr(base.get(q))[:300], "  <-- DIFFERS" if differs else "")
        rc = rc or int(differs)
    return rc
