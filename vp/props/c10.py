"""C10  All faces of the safety check agree on the same per-pickle severity."""
import io
import itertools
import json
import os
import pickle
from contextlib import redirect_stderr, redirect_stdout

from .. import e1, e3
from ..asm import asm, sbu
from ..common import Report
from ..vocab import NAME, RANK

PROP = "C10"

SHAPES = {
    "safe-list": pickle.dumps([1, 2], protocol=3),
    "safe-dict": pickle.dumps({"a": (1, 2)}, protocol=4),
    "suspicious": asm(("GLOBAL", ("collections", "OrderedDict")), "EMPTY_TUPLE", "REDUCE", "POP", "NONE", "STOP"),
    "likely-unsafe": asm(("GLOBAL", ("vp_sink", "hit")), "STOP"),
    "likely-overtly": asm(("GLOBAL", ("posix", "getpid")), "STOP"),
    "overtly": asm(("GLOBAL", ("builtins", "eval")), sbu("1+1"), "TUPLE1", "REDUCE", "STOP"),
    # flagged although nothing is imported or called (tampering indicators only)
    "dup-proto": asm(("PROTO", 4), ("PROTO", 4), ("BININT1", 1), "STOP"),
}
EXPECTED = {"safe-list": "LIKELY_SAFE", "safe-dict": "LIKELY_SAFE", "suspicious": "SUSPICIOUS", "likely-unsafe": "LIKELY_UNSAFE",
            "likely-overtly": "LIKELY_OVERTLY_MALICIOUS", "overtly": "OVERTLY_MALICIOUS", "dup-proto": "LIKELY_UNSAFE"}


# shapes used alone and as the first / second member of a pair only (kept out of the big stack product)
EXTRA_SHAPES = {
    "eval-then-nonstd-call": asm(("GLOBAL", ("builtins", "eval")), sbu("1+1"), "TUPLE1", "REDUCE", "POP",
                                 ("GLOBAL", ("vp_sink", "hit")), "EMPTY_TUPLE", "REDUCE", "STOP"),
    "nonstd-import-then-eval": asm(("GLOBAL", ("vp_sink", "other")), "POP", ("GLOBAL", ("builtins", "eval")), sbu("1+1"), "TUPLE1", "REDUCE", "STOP"),
    "dup-proto-then-os-import": asm(("PROTO", 2), ("PROTO", 2), ("GLOBAL", ("posix", "getpid")), "STOP"),
}
BASE_SHAPES = tuple(SHAPES)
SHAPES.update(EXTRA_SHAPES)

FLOORS = {"likely-unsafe": "LIKELY_UNSAFE", "likely-overtly": "LIKELY_OVERTLY_MALICIOUS", "overtly": "OVERTLY_MALICIOUS"}


def decode_stream(text):
    dec = json.JSONDecoder()
    docs, i = [], 0
    while i < len(text):
        while i < len(text) and text[i].isspace():
            i += 1
        if i >= len(text):
            break
        d, i = dec.raw_decode(text, i)
        docs.append(d)
    return docs


def _file(item):
    import fickling
    import fickling.fickle as fk
    from fickling import cli
    from fickling.analysis import Severity, check_safety
    from fickling.exception import UnsafeFileError

    names, workdir = item
    out = e1.Out()
    st = out.stats
    data = b"".join(SHAPES[n] for n in names)
    d = os.path.join(workdir, "f-" + "-".join(names))
    os.makedirs(d, exist_ok=True)
    path = os.path.join(d, "in.pkl")
    with open(path, "wb") as f:
        f.write(data)
    rp = {"engine": "E3", "stack": list(names), "bytes": data}
    size = len(names)

    def bad(sig, desc):
        out.violate(PROP, sig, f"stack {list(names)}: {desc}", rp, size)

    # library verdict per pickle
    sp = fk.StackedPickle.load(data)
    if len(sp) != len(names):
        bad("C10|stack-split", f"{len(sp)} pickles parsed, {len(names)} written")
        return out
    sev = []
    for n, p in zip(names, sp):
        res = check_safety(p)
        st.inc("library_verdicts")
        s = res.severity.name
        sev.append(s)
        ranks = [RANK[r.severity.name] for r in res.results]
        want = NAME[max(ranks)] if ranks else "LIKELY_SAFE"
        if s != want:
            bad(f"C10|severity-not-max|{n}", f"severity {s} but findings' maximum is {want}")
        if (s == "LIKELY_SAFE") != (not res.results):
            bad(f"C10|safe-iff-no-findings|{n}", f"severity {s} with {len(res.results)} findings")
        # Only what the properties guarantee about the shapes is demanded (C04's floors); the exact rating of e.g. an
        # unused variable or a duplicate PROTO is the library's choice and may legitimately change.
        floor = FLOORS.get(n)
        if floor and RANK[s] < RANK[floor]:
            bad(f"C10|shape-below-floor|{n}", f"shape {n} rated {s}, below the documented floor {floor}")
        if bool(res) != (s == "LIKELY_SAFE"):
            bad(f"C10|bool-of-results|{n}", f"bool(results) is {bool(res)} for severity {s}")
        for r in res.results:
            if bool(r) != (r.severity.name == "LIKELY_SAFE"):
                bad(f"C10|bool-of-finding|{n}", f"bool(finding) is {bool(r)} for a {r.severity.name} finding")
        if res.to_dict()["severity"] != s:
            bad(f"C10|to_dict-severity|{n}", f"to_dict severity {res.to_dict()['severity']} != {s}")
    # boolean query looks at the first pickle
    ils = fickling.is_likely_safe(path)
    st.inc("is_likely_safe_calls")
    if bool(ils) != (sev[0] == "LIKELY_SAFE"):
        bad(f"C10|is_likely_safe|{names[0]}", f"is_likely_safe={ils} but first pickle is {sev[0]}")
    # checked loader at all thresholds
    for th in Severity:
        st.inc("loader_calls")
        try:
            with open(path, "rb") as f:
                fickling.load(f, max_acceptable_severity=th)
            raised = None
        except UnsafeFileError as e:
            raised = e
        except Exception as e:  # noqa: BLE001
            bad(f"C10|loader-other-exception|{type(e).__name__}", f"threshold {th.name}: {type(e).__name__}: {e}")
            continue
        should = RANK[sev[0]] > RANK[th.name]
        if should != (raised is not None):
            bad(f"C10|loader-threshold|{sev[0]}|{th.name}",
                f"first pickle {sev[0]}, threshold {th.name}: loader {'raised' if raised else 'returned'}")
        if raised is not None and raised.info.get("severity") != sev[0]:
            bad("C10|loader-info-severity", f"UnsafeFileError.info severity {raised.info.get('severity')} != {sev[0]}")
    # CLI
    from .c06 import RawNonSeekable

    class _In:
        def __init__(self):
            self.buffer = io.BufferedReader(RawNonSeekable(data))

    import sys

    for (use_json, use_print), via_stdin in itertools.product(itertools.product((False, True), repeat=2), (False, True)):
        if via_stdin and use_print:
            continue
        cwd = os.getcwd()
        os.chdir(d)
        report = os.path.join(d, "report.json") if use_json else os.path.join(d, "safety_results.json")
        for pth in (os.path.join(d, "report.json"), os.path.join(d, "safety_results.json")):
            if os.path.exists(pth):
                os.remove(pth)
        argv = ["fickling", "--check-safety"] + ([] if via_stdin else [path]) + (["--json-output", report] if use_json else []) + (["--print-results"] if use_print else [])
        so, se = io.StringIO(), io.StringIO()
        old_stdin = sys.stdin
        if via_stdin:
            sys.stdin = _In()  # the file piped in: a stream that cannot seek
        try:
            with redirect_stdout(so), redirect_stderr(se):
                rc = cli.main(argv)
        except SystemExit as e:
            rc = f"SystemExit({e.code})"
        except Exception as e:  # noqa: BLE001
            rc = f"{type(e).__name__}: {e}"
        finally:
            sys.stdin = old_stdin
            os.chdir(cwd)
        st.inc("cli_runs")
        opt = f"json={int(use_json)},print={int(use_print)}" + (",stdin" if via_stdin else "")
        all_safe = all(s == "LIKELY_SAFE" for s in sev)
        if rc not in (0, 1):
            bad(f"C10|cli-crash|{opt}", f"cli returned {rc!r}")
            continue
        if (rc == 0) != all_safe:
            bad(f"C10|cli-exit|{'all-safe' if all_safe else 'flagged@' + str([i for i, s in enumerate(sev) if s != 'LIKELY_SAFE'][0])}",
                f"exit {rc} but per-pickle severities are {sev} ({opt})")
        if not os.path.exists(report):
            bad(f"C10|cli-report-missing|{opt}", f"no report at {os.path.basename(report)}")
            continue
        try:
            docs = decode_stream(open(report).read())
        except Exception as e:  # noqa: BLE001
            bad(f"C10|cli-report-undecodable|{opt}", f"{type(e).__name__}: {e}")
            continue
        got = [x.get("severity") for x in docs]
        if got != sev:
            bad(f"C10|cli-report-severities|{opt}", f"report severities {got} != per-pickle {sev}")
    return out


def same_path_history(rep, wd):
    """The verdict faces are functions of the file's *content*: rewriting a path and asking again must follow the content."""
    import fickling
    from fickling.exception import UnsafeFileError

    path = os.path.join(wd, "same-path.pkl")
    n = 0
    for first, second in itertools.permutations(BASE_SHAPES, 2):
        for name in (first, second, first):
            with open(path, "wb") as f:
                f.write(SHAPES[name])
            n += 1
            import fickling.fickle as fk
            from fickling.analysis import check_safety

            want_safe = check_safety(fk.Pickled.load(SHAPES[name])).severity.name == "LIKELY_SAFE"
            got = bool(fickling.is_likely_safe(path))
            try:
                with open(path, "rb") as f:
                    fickling.load(f)
                raised = False
            except UnsafeFileError:
                raised = True
            if got != want_safe:
                rep.violate("C10|same-path|is_likely_safe", f"path rewritten {first}->{second}->{first}: is_likely_safe={got} while the file holds {name}",
                            {"engine": "E3", "history": [first, second, first], "now": name}, 2)
            if raised == want_safe:
                rep.violate("C10|same-path|loader", f"path rewritten {first}->{second}->{first}: loader {'raised' if raised else 'returned'} while the file holds {name}",
                            {"engine": "E3", "history": [first, second, first], "now": name}, 2)
    # same path, same size, same modification time, different content (a cache keyed on file metadata would not notice)
    mal = SHAPES["likely-overtly"]
    pairs = {"flagged": mal, "safe": asm(sbu("x" * (len(mal) - 3)), "STOP")}
    assert len(pairs["safe"]) == len(mal)
    for order in (("safe", "flagged", "safe"), ("flagged", "safe", "flagged")):
        for name in order:
            with open(path, "wb") as f:
                f.write(pairs[name])
            os.utime(path, (1_700_000_000, 1_700_000_000))
            n += 1
            got = bool(fickling.is_likely_safe(path))
            try:
                with open(path, "rb") as f:
                    fickling.load(f)
                raised = False
            except UnsafeFileError:
                raised = True
            want_safe = name == "safe"
            if got != want_safe:
                rep.violate("C10|same-path-same-metadata|is_likely_safe", f"path rewritten {order} with equal size and mtime: is_likely_safe={got} while the file "
                            f"holds the {name} pickle", {"engine": "E3", "history": list(order), "now": name}, 2)
            if raised == want_safe:
                rep.violate("C10|same-path-same-metadata|loader", f"path rewritten {order} with equal size and mtime: loader {'raised' if raised else 'returned'} "
                            f"while the file holds the {name} pickle", {"engine": "E3", "history": list(order), "now": name}, 2)
    rep.add("same_path_queries", n)
    return n


def operators(rep):
    from fickling.analysis import Severity

    import operator as op

    n = 0
    for a, b in itertools.product(Severity, repeat=2):
        for name, f in (("<", op.lt), ("<=", op.le), ("==", op.eq), ("!=", op.ne), (">=", op.ge), (">", op.gt)):
            n += 1
            want = f(RANK[a.name], RANK[b.name])
            got = f(a, b)
            if bool(got) != want or not isinstance(got, bool):
                rep.violate(f"C10|operator|{name}", f"{a.name} {name} {b.name} gives {got!r}, ranks say {want}",
                            {"engine": "E3", "pair": [a.name, b.name], "op": name}, 1)
    order = sorted(Severity, key=lambda s: RANK[s.name])
    if [s.name for s in sorted(Severity, key=lambda s: s.value)] != [s.name for s in order]:
        rep.violate("C10|ranking", "documented ranking differs from value order", {"engine": "E3"}, 1)
    if max(Severity).name != "OVERTLY_MALICIOUS" or min(Severity).name != "LIKELY_SAFE":
        rep.violate("C10|max-min", "max()/min() over Severity disagree with the ranking", {"engine": "E3"}, 1)
    rep.add("operator_checks", n)
    return n


def check(tier):
    rep = Report(PROP, tier)
    kmax = 4 if tier == "thorough" else 3
    kmax = 4
    stacks = [t for k in range(1, 4) for t in itertools.product(BASE_SHAPES, repeat=k)]
    stacks += [(x,) for x in EXTRA_SHAPES] + [(x, b) for x in EXTRA_SHAPES for b in BASE_SHAPES] + [(b, x) for x in EXTRA_SHAPES for b in BASE_SHAPES]
    five = [n for n in BASE_SHAPES if n not in ("safe-dict", "dup-proto")]
    stacks += list(itertools.product(five, repeat=4))
    if tier == "thorough":
        stacks += [t for t in itertools.product(BASE_SHAPES, repeat=4) if "safe-dict" in t]
        four = ["safe-list", "suspicious", "likely-unsafe", "overtly"]
        stacks += list(itertools.product(four, repeat=5))
        kmax = 5
    with e3.Scratch("c10") as wd:
        e3.pmap(_file, [(s, wd) for s in stacks], rep, chunksize=4)
        same_path_history(rep, wd)
    nops = operators(rep)
    execs = sum(rep.cov.get(k, 0) for k in ("library_verdicts", "is_likely_safe_calls", "loader_calls", "cli_runs")) + nops
    e3.finish_counts(rep, len(stacks) + 36, execs, len(stacks) + 36)
    rep.set("shapes", list(SHAPES))
    rep.set("max_stack", kmax)
    rep.set("rule", "all stacks of 1..max_stack pickles over the listed shapes x {library verdict, is_likely_safe, loader at 6 thresholds, "
                    "CLI --check-safety under 4 option sets} + 36 severity pairs x 6 operators; a point is non-trivial/distinct per stack")
    rep.sample({"stack": ["safe-list", "overtly"], "expected_cli_exit": 1})
    rep.assumptions += ["independent rank table vp/vocab.py:RANK", "POSSIBLY_UNSAFE is produced by no analysis (not reachable as a verdict)"]
    return rep.finish()


def replay(path):
    case = json.load(open(path))["case"]
    with e3.Scratch("c10r") as wd:
        o = _file((tuple(case["stack"]), wd))
    for sig, lst in o.viol.items():
        print(sig, lst[0][2])
    return 1 if o.viol else 0
