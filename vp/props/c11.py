"""C11  User allowlist additions do not outlive or leak beyond their activation."""
import _pickle
import copy
import io
import json
import pickle

ORIG = {"load": pickle.load, "loads": pickle.loads, "cload": _pickle.load, "cloads": _pickle.loads}

from .. import e2  # noqa: E402
from ..asm import asm  # noqa: E402
from ..common import Report, digest  # noqa: E402

PROP = "C11"

GLOBALS = [("collections", "OrderedDict"), ("collections", "Counter"), ("vp_sink", "hit"), ("_codecs", "encode"),
           ("vp_objs", "Plain"), ("vp_objs", "Slotted"), ("collections.abc", "Mapping")]
BASE = {("collections", "OrderedDict"), ("_codecs", "encode")}
ADDS = {
    "none": (),
    "Counter": ("collections.Counter",),
    "sink": ("vp_sink.hit",),
    "both": ("collections.Counter", "vp_sink.hit"),
    "newmod2": ("vp_objs.Plain", "vp_objs.Slotted"),  # two names in one module that the built-in list does not have
    "dotted-module": ("collections.abc.Mapping",),  # module with a dot: only the last component is the name
    # a new member of a module that the built-in list has and whose name contains dots
    "dotted-listed": ("numpy.core.multiarray.vp_extra", "torch._utils._rebuild_qtensor"),
}
# "probe": loads of every probe global through the pickle module, refused ones included, as part of the history (a load
# that fails half-way is where per-load bookkeeping goes wrong)
OPS = tuple(f"activate({a})" for a in ADDS) + ("deactivate", "probe") + tuple(f"instance({a})" for a in ADDS)

_PRISTINE = None


def pristine():
    global _PRISTINE
    import fickling.ml as ml

    if _PRISTINE is None:
        _PRISTINE = copy.deepcopy(ml.ML_ALLOWLIST)
    return _PRISTINE


def probe_bytes(g):
    return asm(("GLOBAL", g), "STOP")


def outcome(fn):
    from fickling.exception import UnsafeFileError

    try:
        fn()
        return "allowed"
    except UnsafeFileError:
        return "blocked"
    except Exception as e:  # noqa: BLE001
        return f"raised {type(e).__name__}"


def as_set(adds):
    return {tuple(a.rsplit(".", 1)) for a in adds}


class Allow(e2.System):
    ops = OPS

    def __init__(self):
        import fickling.hook
        import fickling.ml

        pristine()
        self.mstate = e2.ModuleState([fickling.hook, fickling.ml])

    def fresh(self):
        import fickling.ml as ml

        self.mstate.restore()

        p = pristine()
        ml.ML_ALLOWLIST.clear()
        ml.ML_ALLOWLIST.update(copy.deepcopy(p))
        pickle.load, pickle.loads = ORIG["load"], ORIG["loads"]
        _pickle.load, _pickle.loads = ORIG["cload"], ORIG["cloads"]
        return {}, None  # model: None = inactive, else tuple of additions

    def apply(self, ctx, model, op):
        import fickling.hook as hook
        import fickling.ml as ml

        name, arg = op.rstrip(")").split("(") if "(" in op else (op, None)
        obs = None
        if name == "activate":
            hook.activate_safe_ml_environment(also_allow=list(ADDS[arg]) or None)
            model = ADDS[arg]
        elif name == "deactivate":
            hook.deactivate_safe_ml_environment()
            model = None
        elif name == "instance":
            res = {}
            for g in GLOBALS:
                res[g] = outcome(lambda g=g: ml.FicklingMLUnpickler(io.BytesIO(probe_bytes(g)), also_allow=list(ADDS[arg]) or None).load())
            obs = ("instance", ADDS[arg], res)
        elif name == "probe":
            for g in GLOBALS:
                outcome(lambda g=g: pickle.loads(probe_bytes(g)))
                outcome(lambda g=g: pickle.load(io.BytesIO(probe_bytes(g))))
        return model, obs

    def check(self, ctx, model, op, obs):
        import fickling.analysis as an
        import fickling.ml as ml

        probs = []
        if obs and obs[0] == "instance":
            allowed = BASE | as_set(obs[1])
            for g, out in obs[2].items():
                want = "allowed" if g in allowed else "blocked"
                if out != want:
                    probs.append((f"C11|instance-probe|{g[0]}.{g[1]}|{out}",
                                  f"unpickler instance with also_allow={list(obs[1])}: {g[0]}.{g[1]} is {out}, expected {want}"))
        if model is not None:
            allowed = BASE | as_set(model)
            for entry, fn in (("loads", lambda b: pickle.loads(b)), ("load", lambda b: pickle.load(io.BytesIO(b))),
                              ("_pickle.loads", lambda b: _pickle.loads(b))):
                for g in GLOBALS:
                    out = outcome(lambda: fn(probe_bytes(g)))
                    want = "allowed" if g in allowed else "blocked"
                    if out != want:
                        probs.append((f"C11|active-probe|{g[0]}.{g[1]}|{out}",
                                      f"active additions {list(model)}: {g[0]}.{g[1]} via pickle.{entry} is {out}, expected {want}"))
        if model is None:
            for slot, fn in (("load", pickle.load), ("loads", pickle.loads), ("cload", _pickle.load), ("cloads", _pickle.loads)):
                if fn is not ORIG[slot]:
                    probs.append((f"C11|inactive-but-hooked|{slot}", f"no activation is in force but pickle binding {slot} is not the original function "
                                  f"(an earlier activation's additions would still apply)"))
        if ml.ML_ALLOWLIST != pristine():
            diff = _dictdiff(pristine(), ml.ML_ALLOWLIST)
            probs.append(("C11|builtin-allowlist-mutated", f"ML_ALLOWLIST changed: {diff}"))
        for a in an.Analysis.ALL:
            if type(a).__name__ == "MLAllowlist" and a.allowlist != pristine():
                probs.append(("C11|analysis-allowlist-mutated", f"MLAllowlist.allowlist changed: {_dictdiff(pristine(), a.allowlist)}"))
        return probs

    def key(self, ctx, model):
        import fickling.ml as ml

        return (model, digest(sorted((m, sorted(d)) for m, d in ml.ML_ALLOWLIST.items())))

    def cleanup(self, ctx):
        pickle.load, pickle.loads = ORIG["load"], ORIG["loads"]
        _pickle.load, _pickle.loads = ORIG["cload"], ORIG["cloads"]


def _dictdiff(a, b):
    out = []
    for m in sorted(set(a) | set(b)):
        da, db = a.get(m), b.get(m)
        if da != db:
            if da is None or db is None:
                out.append(f"module {m} {'added' if da is None else 'removed'}")
            else:
                out.append(f"{m}: +{sorted(set(db) - set(da))} -{sorted(set(da) - set(db))}")
    return "; ".join(out[:4])


def check(tier):
    rep = Report(PROP, tier)
    depth = 5 if tier == "thorough" else 4
    s = Allow()
    try:
        # every history, no state matching (robust against hidden state such as a module-level cache) ...
        e2.explore(s, depth, rep, PROP, merge=False)
        rep.set("unmerged_histories", rep.cov.get("transitions", 0))
        # ... and deeper with state matching on (active additions, digest of ML_ALLOWLIST)
        e2.explore(s, depth + 4, rep, PROP, merge=True)
    finally:
        s.fresh()
    rep.set("ops", list(OPS))
    rep.set("probe_globals", [".".join(g) for g in GLOBALS])
    rep.set("depth_bound", depth)
    rep.set("rule", "BFS over all histories of activate(A)/deactivate/instance(A) to depth_bound; after every step all probe globals are "
                    "loaded through pickle.load, pickle.loads and _pickle.loads and compared with BASE ∪ current additions; "
                    "ML_ALLOWLIST deep-compared with its pristine copy; states merged on (active additions, digest of ML_ALLOWLIST)")
    rep.assumptions += ["BASE for the probe globals is read off the documented allowlist: collections.OrderedDict and _codecs.encode are allow-listed, "
                        "collections.Counter, vp_sink.hit, vp_objs.Plain are not",
                        "the harness restores ML_ALLOWLIST from its own deep copy before every history"]
    return rep.finish()


def replay(path):
    case = json.load(open(path))["case"]
    s = Allow()
    ctx, model = s.fresh()
    rc = 0
    for op in case["history"]:
        model, obs = s.apply(ctx, model, op)
        print(op, "->", model)
        for sig, d in s.check(ctx, model, op, obs):
            print("   MISMATCH", sig, d)
            rc = 1
    s.fresh()
    return rc
