"""C05  Decompiled program rebuilds the same value as the real pickle VM."""
import json

from .. import e1, oracles
from ..asm import BASE, G, INST, SG, alphabet, fullclass_symbols, register_ext
from ..common import Report
from .c03 import _fold

PROP = "C05"

DATA = ("NONE K1 K2 STR ELIST EDICT ESET ETUP MARK TUPLE T1 T2 T3 LIST DICT FROZENSET APPEND APPENDS SETITEM "
        "SETITEMS ADDITEMS POP DUP MEMOIZE BINPUT1 BINGET0 BINGET1").split()
OBJS = "NEWOBJ REDUCE BUILD OBJ".split()


def check(tier):
    rep = Report(PROP, tier)
    register_ext()
    depth = 5 if tier == "thorough" else 4
    cfg = e1.Config(PROP, alphabet(DATA), depth + 1 if tier == "thorough" else depth, [], [oracles.c05_value], split=2)
    e1.run(cfg, rep)
    rep2 = Report(PROP, tier)
    cfg2 = e1.Config(PROP, alphabet(DATA + OBJS, [G("m", "C")]), depth, [], [oracles.c05_value], split=2)
    e1.run(cfg2, rep2)
    _fold(rep, rep2, "objs")
    # aliasing defects need ~6-7 opcodes: a narrow alphabet explored deeper
    rep3 = Report(PROP, tier)
    narrow = "K1 STR ELIST EDICT ESET MARK T2 APPEND SETITEM SETITEMS ADDITEMS MEMOIZE BINGET0 DUP".split()
    cfg3 = e1.Config(PROP, alphabet(narrow), depth + 2, [], [oracles.c05_value], split=2)
    e1.run(cfg3, rep3)
    _fold(rep, rep3, "narrow")
    # objects with state: NEWOBJ/REDUCE + BUILD need 5-6 symbols
    rep5 = Report(PROP, tier)
    objn = "NONE K1 STR ETUP EDICT T1 NEWOBJ REDUCE BUILD SETITEM MEMOIZE BINGET0 POP".split()
    cfg5 = e1.Config(PROP, alphabet(objn, [G("m", "C")]), depth + 2, [], [oracles.c05_value], split=2)
    e1.run(cfg5, rep5)
    _fold(rep, rep5, "objnarrow")
    # equal keys inside one DICT / SETITEMS slice (last one wins), and memo layouts mixing explicit PUT ids with MEMOIZE
    rep6 = Report(PROP, tier)
    cfg6 = e1.Config(PROP, alphabet("MARK STR STRB K1 K2 DICT SETITEMS EDICT SETITEM".split()), depth + 2, [], [oracles.c05_value], split=2)
    e1.run(cfg6, rep6)
    _fold(rep, rep6, "dupkeys")
    rep7 = Report(PROP, tier)
    cfg7 = e1.Config(PROP, alphabet("K1 K2 MARK TUPLE BINPUT1 BINPUT0 MEMOIZE BINGET0 BINGET1 POP LBPUT LBGET".split()), depth + 2, [],
                     [oracles.c05_value], split=2)
    e1.run(cfg7, rep7)
    _fold(rep, rep7, "memo")
    rep4 = Report(PROP, tier)
    # call-argument order and same-named globals of two modules (OBJ / INST / REDUCE with >= 2 distinct arguments)
    rep8 = Report(PROP, tier)
    argorder = alphabet("MARK K1 STR TUPLE OBJ REDUCE POP".split(), [G("m", "X"), G("m2", "X"), INST("m", "X")])
    cfg8 = e1.Config(PROP, argorder, depth + 1, [], [oracles.c05_value], split=2)
    e1.run(cfg8, rep8)
    _fold(rep, rep8, "argorder")
    ctx = alphabet("NONE K1 STR MARK TUPLE ETUP EDICT ELIST ESET POP".split(), [G("m", "C")])
    labels = {s.label for s in ctx}
    full = ctx + [s for s in fullclass_symbols() if s.label not in labels]
    cfg4 = e1.Config(PROP, full, 3, [], [oracles.c05_value], split=1)
    e1.run(cfg4, rep4)
    _fold(rep, rep4, "fullclass")
    from . import c03_corpus, c05_plain

    c03_corpus.run(rep, tier, names=("c05_value",))
    from .. import corpus, deviate
    from .c03 import deviation_bases

    dsyms = alphabet("NONE K1 STR ELIST EDICT ESET ETUP MARK TUPLE T2 LIST DICT FROZENSET APPEND APPENDS SETITEM SETITEMS ADDITEMS POP DUP "
                     "MEMOIZE BINGET0 BINGET1 REDUCE NEWOBJ BUILD".split())
    plain = [(f"plain[{i}]/{t}", b) for i, v in enumerate(corpus.plain_values("quick")[30::41 if tier == "quick" else 5])
             for t, b in corpus.pickles_of(v, protocols=(0, 2, 4), unframed=False) if len(b) < 300]
    deviate.run(PROP, deviation_bases(tier) + plain, dsyms, [(oracles, "c05_value")], rep)
    c05_plain.run(rep, tier)
    rep.assumptions += [
        "stub world as in C03; values compared structurally (floats by repr, dict/set order-insensitive), sharing compared through value",
        "cyclic VM values are outside the quantifier and excluded (counted)",
        "plain-data oracle: exec of the decompiled source in a real namespace equals the pickled object (type and value)",
    ]
    return rep.finish()


def replay(path):
    register_ext()
    return e1.replay_terminal(PROP, path, [oracles.c05_value])
