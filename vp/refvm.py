"""Reference pickle VM (CPython's pure-Python unpickler, steppable) in a world of inert stubs."""
import io
import pickle
import pickle as _p

BUILTIN_FAMILY = ("builtins", "__builtin__", "__builtins__")


class World:
    """One stub universe: an event log shared by every stub created inside it."""

    def __init__(self):
        self.log = []  # ("import", m, n) | ("call", callee, args) | ("persid", pid) ...
        self.globals = {}
        self.ninst = 0

    def G(self, module, name):
        key = (module, name)
        g = self.globals.get(key)
        if g is None:
            g = self.globals[key] = GStub(self, module, name)
        return g

    def resolve(self, module, name):
        if module in BUILTIN_FAMILY and not _builtin_exists(module, name):
            # the real VM cannot resolve a builtin that does not exist; such programs are outside every quantifier
            raise AttributeError(f"module {module!r} has no attribute {name!r}")
        self.log.append(("import", module, name))
        if name == "frozenset" and module in BUILTIN_FAMILY:
            # transparent builtin: fickling renders the FROZENSET opcode as a frozenset({...}) call, so
            # the name must mean the real type on both sides (its calls are then not logged on either)
            return frozenset
        return self.G(module, name)


def _builtin_exists(module, name):
    import _compat_pickle
    import builtins

    if (module, name) in _compat_pickle.NAME_MAPPING:
        return True
    obj = builtins
    for part in name.split("."):  # protocol 4 walks the dotted path: every component has to exist
        if not hasattr(obj, part):
            return False
        obj = getattr(obj, part)
    return True


class Stub:
    pass


class GStub(Stub):
    """Stand-in for a global found by (module, name); callable, instantiable, never a type."""

    def __init__(self, world, module, name):
        self._w = world
        self.module = module
        self.name = name
        # instance-level __new__ so that NEWOBJ's cls.__new__(cls, *args) is observable
        self.__dict__["__new__"] = self._new

    def __getattr__(self, attr):
        # attribute walk from an imported name: `from m import Outer; Outer.Inner` is the global m:'Outer.Inner'
        if attr.startswith("__"):
            raise AttributeError(attr)
        return self._w.G(self.module, f"{self.name}.{attr}")

    def canon_callee(self):
        if self.module in BUILTIN_FAMILY:
            return ("B", self.name)
        return ("G", self.module, self.name)

    def __call__(self, *args, **kwargs):
        inst = IStub(self._w, "call", self, args, kwargs)
        self._w.log.append(("call", inst))
        return inst

    def _new(self, cls, *args, **kwargs):
        inst = IStub(self._w, "new", self, args, kwargs)
        self._w.log.append(("new", inst))
        return inst

    def __repr__(self):
        return f"<G {self.module}.{self.name}>"


class IStub(Stub):
    """Stand-in for a value produced by a call; records state applied to it."""

    def __init__(self, world, kind, callee, args, kwargs):
        self._w = world
        world.ninst += 1
        self.serial = world.ninst
        self.kind = kind
        self.callee = callee
        self.args = tuple(args)
        self.kwargs = dict(kwargs)
        self.states = []
        self.items = []
        # snapshot at call time: later in-place mutation of an argument must not rewrite history
        try:
            self.created = (
                "obj",
                "call" if kind == "new" else kind,  # NEWOBJ => cls(*args) is fickling's documented rendering
                canon_creation(callee) if callee is not None else None,
                tuple(canon_creation(x) for x in self.args),
                tuple(sorted(((k, canon_creation(x)) for k, x in self.kwargs.items()), key=repr)),
            )
        except RecursionError:
            self.created = ("obj", kind, "cyclic")

    def __setstate__(self, state):
        self.states.append(state)
        try:
            snap = canon_creation(state)
        except RecursionError:
            snap = ("cyclic",)
        self._w.log.append(("setstate", self, snap, state))

    def __setitem__(self, k, v):
        hash(k)  # a real mapping rejects unhashable keys
        self.items.append((k, v))
        self._w.log.append(("setitem", self, k, v))

    def update(self, d):
        for k, v in d.items():
            self[k] = v

    # mapping view of the recorded item assignments, so that a stub built by REDUCE + SETITEM(S) (e.g. an OrderedDict
    # stand-in) can be star-star-unpacked as NEWOBJ_EX keyword arguments
    def keys(self):
        return list({k: None for k, _v in self.items})

    def __getitem__(self, key):
        for k, v in reversed(self.items):
            if k == key:
                return v
        raise KeyError(key)

    def __call__(self, *args, **kwargs):
        inst = IStub(self._w, "call", self, args, kwargs)
        self._w.log.append(("call", inst))
        return inst

    def __repr__(self):
        return f"<I#{self.serial} {self.kind} {self.callee!r}>"


class PStub(IStub):
    pass


def persistent_load(world, pid):
    inst = PStub(world, "persid", None, (pid,), {})
    world.log.append(("persid", inst))
    return inst


class Cyclic(Exception):
    pass


def canon(v, _path=None, deep=True):
    """Structural, identity-free rendering of a value in a stub world. Raises Cyclic."""
    if _path is None:
        _path = set()
    t = type(v)
    if v is None or t is bool or t is int or t is str or t is bytes:
        return (t.__name__, v)
    if t is float:
        return ("float", repr(v))
    if t is bytearray:
        return ("bytearray", bytes(v))
    i = id(v)
    if i in _path:
        raise Cyclic()
    _path.add(i)
    try:
        if t is list:
            return ("list", tuple(canon(x, _path) for x in v))
        if t is tuple:
            return ("tuple", tuple(canon(x, _path) for x in v))
        # Sets and dict keys are compared as sets of structural values.  The only way two members can have the same
        # structural value is NaN (one shared NaN object is one member, two evaluations of a NaN expression are two):
        # identity of NaN objects is outside structural equality, so duplicates are folded.
        if t is dict:
            d = {}
            for k, x in v.items():
                ck = canon(k, _path)
                d[repr(ck)] = (ck, canon(x, _path))
            return ("dict", tuple(sorted(d.values(), key=repr)))
        if t is set or t is frozenset:
            return (t.__name__, tuple(sorted({repr(c): c for c in (canon(x, _path) for x in v)}.values(), key=repr)))
        if isinstance(v, GStub):
            return v.canon_callee()
        if isinstance(v, IStub):
            return (
                "obj",
                v.created,
                tuple(canon(s, _path) for s in v.states),
                _canon_items(v.items, _path),
            )
        if t is type:
            return ("type", v.__module__, v.__qualname__)
        return ("other", t.__name__, repr(v))
    finally:
        _path.discard(i)


def _canon_items(items, _path):
    """Item assignments recorded on a stub, with mapping semantics: last value per key, order of first insertion."""
    d = {}
    for k, x in items:
        d[repr(canon(k, _path))] = (canon(k, _path), canon(x, _path))
    return tuple(d.values())


def canon_creation(v):
    """Canonical form of a stub instance *as created* (callee + args), ignoring later state.
    Used for call-event comparison: the event is the call, not what was later done to its result."""
    if isinstance(v, IStub):
        return v.created
    if isinstance(v, GStub):
        return v.canon_callee()
    t = type(v)
    if t in (list, tuple):
        return (t.__name__, tuple(canon_creation(x) for x in v))
    if t is dict:
        return ("dict", tuple(sorted(((canon_creation(k), canon_creation(x)) for k, x in v.items()), key=repr)))
    if t in (set, frozenset):
        return (t.__name__, tuple(sorted((canon_creation(x) for x in v), key=repr)))
    if t is float:
        return ("float", repr(v))
    if v is None or t in (bool, int, str, bytes):
        return (t.__name__, v)
    return ("other", t.__name__)


def safe_canon_creation(v):
    try:
        return canon_creation(v)
    except RecursionError:
        return ("cyclic",)


class _KindedList(list):
    """call events in canonical (kind-normalised) form, with the raw kind of each event kept alongside"""

    def __init__(self):
        super().__init__()
        self.kinds = []


def late_mutation(world):
    """True if some mutable object was changed *after* it had been passed to a call or applied as state: the reference VM
    then performed the call with a value that a source-level rendering which mutates literals in place cannot show."""
    for ev in world.log:
        try:
            if ev[0] in ("call", "new", "persid"):
                inst = ev[1]
                if len(inst.created) < 5:
                    continue  # arguments were cyclic at call time: no snapshot to compare with
                if inst.created[3] != tuple(canon_creation(x) for x in inst.args):
                    return True
                if inst.created[4] != tuple(sorted(((k, canon_creation(x)) for k, x in inst.kwargs.items()), key=repr)):
                    return True
            elif ev[0] == "setstate":
                if ev[2] != canon_creation(ev[3]):
                    return True
        except RecursionError:
            return True
    return False


def events(world):
    """(imports, calls) of a world's log as lists of canonical tuples.

    imports: ("import", module, name)
    calls:   ("call"|"new"|"persid", canonical callee, canonical args)   [setstate/setitem separately]
    """
    imports, calls, others = [], _KindedList(), []
    for ev in world.log:
        k = ev[0]
        if k == "import":
            # a dotted qualified name is imported through its outermost component
            imports.append(("import", ev[1], ev[2].split(".")[0]))
        elif k in ("call", "new", "persid"):
            inst = ev[1]
            calls.append(safe_canon_creation(inst))
            calls.kinds.append(k)
        elif k == "setstate":
            others.append((k, safe_canon_creation(ev[1]), ev[2]))
        else:
            others.append((k,) + tuple(safe_canon_creation(x) for x in ev[1:]))
    return imports, calls, others


class RefVM(_p._Unpickler):
    """Pure-Python unpickler, steppable one opcode at a time, resolving everything to stubs."""

    def __init__(self, data, world=None, typed=False, buffers=None):
        super().__init__(io.BytesIO(data), buffers=buffers)
        self.typed = typed
        self.consumed = {}  # id -> object: mutable containers already handed to a call / applied as state
        self.late_mutation = False
        self.unordered_args = False  # a set/frozenset star-unpacked as call arguments: order is hash-dependent
        self.world = world or World()
        self._unframer = _p._Unframer(self._file_read, self._file_readline)
        self.read = self._unframer.read
        self.readinto = self._unframer.readinto
        self.readline = self._unframer.readline
        self.metastack = []
        self.stack = []
        self.append = self.stack.append
        self.proto = 0
        self.result = None
        self.stopped = False
        self.nsteps = 0
        self._io = self._file_read.__self__ if hasattr(self._file_read, "__self__") else None

    def find_class(self, module, name):
        return self.world.resolve(module, name)

    def persistent_load(self, pid):
        return persistent_load(self.world, pid)

    def step(self):
        """Execute one opcode. Returns False after STOP. Raises whatever the VM raises."""
        key = self.read(1)
        if not key:
            raise EOFError
        self._before(key[0])
        try:
            self.dispatch[key[0]](self)
        except _p._Stop as s:
            self.result = s.value
            self.stopped = True
            return False
        self.nsteps += 1
        return True

    def run(self):
        while self.step():
            pass
        return self.result

    _MUTATORS = {_p.APPEND[0]: "append", _p.APPENDS[0]: "appends", _p.SETITEM[0]: "setitem", _p.SETITEMS[0]: "setitems",
                 _p.ADDITEMS[0]: "additems", _p.BUILD[0]: "build"}

    def _before(self, op):
        """Typing discipline (optional) and bookkeeping of containers consumed by call-making opcodes."""
        st, ms = self.stack, self.metastack
        g = self._MUTATORS.get(op)
        if g is not None:
            if self.typed and not guard_ok(self, g):
                raise TypingDisabled(g)
            try:
                target = {"append": lambda: st[-2], "appends": lambda: ms[-1][-1], "setitem": lambda: st[-3],
                          "setitems": lambda: ms[-1][-1], "additems": lambda: ms[-1][-1], "build": lambda: None}[g]()
            except IndexError:
                target = None
            if target is not None and id(target) in self.consumed:
                self.late_mutation = True
        try:
            if op in (_p.REDUCE[0], _p.NEWOBJ[0]) and type(st[-1]) in (set, frozenset) and len(st[-1]) > 1:
                self.unordered_args = True
            if op in (_p.REDUCE[0], _p.NEWOBJ[0], _p.BUILD[0]):
                self._consume(st[-1])
            elif op == _p.NEWOBJ_EX[0]:
                self._consume(st[-1])
                self._consume(st[-2])
            elif op in (_p.OBJ[0], _p.INST[0]):
                for x in st:
                    self._consume(x)
            elif op == _p.BINPERSID[0]:
                self._consume(st[-1])
        except IndexError:
            pass

    def _consume(self, v, depth=0):
        if depth > 6:
            return
        t = type(v)
        if t in (list, dict, set):
            if id(v) in self.consumed:
                return
            self.consumed[id(v)] = v
        if t in (list, tuple, set, frozenset):
            for x in v:
                self._consume(x, depth + 1)
        elif t is dict:
            for k, x in v.items():
                self._consume(k, depth + 1)
                self._consume(x, depth + 1)

    # -- observation ---------------------------------------------------------------------------
    def depth(self):
        return sum(len(m) + 1 for m in self.metastack) + len(self.stack)

    def mark_positions(self):
        pos, n = [], 0
        for m in self.metastack:
            n += len(m)
            pos.append(n)
            n += 1
        return pos

    def flat(self):
        """Flattened stack with None-sentinel MARK objects."""
        out = []
        for m in self.metastack:
            out.extend(m)
            out.append(MARK)
        out.extend(self.stack)
        return out


class TypingDisabled(Exception):
    pass


class _Mark:
    def __repr__(self):
        return "MARK"


MARK = _Mark()


def guard_ok(vm: RefVM, guard):
    """Typing discipline: mutator opcodes are enabled only on their natural target types."""
    if guard is None:
        return True
    st, ms = vm.stack, vm.metastack
    try:
        if guard == "append":
            return type(st[-2]) is list
        if guard == "appends":
            return bool(ms) and type(ms[-1][-1]) is list
        if guard == "setitem":
            return type(st[-3]) is dict or isinstance(st[-3], IStub)
        if guard == "setitems":
            return bool(ms) and (type(ms[-1][-1]) is dict or isinstance(ms[-1][-1], IStub)) and len(st) % 2 == 0
        if guard == "additems":
            return bool(ms) and type(ms[-1][-1]) is set
        if guard == "build":
            return isinstance(st[-2], IStub)
    except IndexError:
        return False
    raise KeyError(guard)


def run_prefix(data, world=None):
    """Run the VM over data (no STOP required); returns the VM, or raises."""
    vm = RefVM(data, world)
    n = len(data)
    bio = vm._file_read.__self__
    while bio.tell() < n or _pending(vm):
        vm.step()
        if vm.stopped:
            break
    return vm


def _pending(vm):
    fr = vm._unframer.current_frame
    return fr is not None and fr.tell() < len(fr.getbuffer())


# ---- C unpickler cross-check ------------------------------------------------------------------


class CVM(pickle.Unpickler):
    def __init__(self, data, world):
        super().__init__(io.BytesIO(data))
        self.world = world

    def find_class(self, module, name):
        return self.world.resolve(module, name)

    def persistent_load(self, pid):
        return persistent_load(self.world, pid)


def run_c(data):
    w = World()
    return CVM(data, w).load(), w
