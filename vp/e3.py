"""E3: exhaustive enumeration of finite configuration products, executed in parallel on the real code."""
import multiprocessing as mp
import os
import shutil
import tempfile

from . import e1
from .common import ncpu, seed


class _Guard:
    """Turns an unexpected exception inside a worker into a reported violation instead of a harness crash:
    on the unchanged tree the workers do not raise, so anything that escapes is behaviour the oracle did not
    anticipate from the code under test."""

    def __init__(self, fn, prop):
        self.fn, self.prop = fn, prop

    def __call__(self, item):
        from .watchdog import Timeout, limit

        try:
            with limit(300):
                return self.fn(item)
        except (Exception, Timeout) as e:  # noqa: BLE001
            import traceback

            tb = traceback.extract_tb(e.__traceback__)
            where = next((f"{os.path.basename(fr.filename)}:{fr.name}" for fr in reversed(tb) if "/fickling/" in fr.filename), "harness")
            o = e1.Out()
            o.violate(self.prop, f"{self.prop}|unexpected-exception|{type(e).__name__}|{where}",
                      f"{type(e).__name__}: {e} at {where} while checking {repr(item)[:200]}", {"engine": "E3", "item": repr(item)[:2000]}, 0)
            return o


def pmap(fn, items, rep, chunksize=8, procs=None, ordered=False):
    """Run fn(item) -> e1.Out for every item; merge stats/violations into rep. Returns merged Out."""
    fn = _Guard(fn, rep.prop)
    items = list(items)
    s = seed() % max(1, len(items))
    items = items[s:] + items[:s]  # seed rotates dispatch order only
    total = e1.Out()
    n = procs or ncpu()
    from . import par

    for o in par.pmap_unordered(fn, items, chunksize=chunksize, procs=n):
        if isinstance(o, par.WorkerDied):
            d = e1.Out()
            d.violate(rep.prop, f"{rep.prop}|worker-process-died", f"{o.why} while checking {repr(o.item)[:300]}",
                      {"engine": "E3", "item": repr(o.item)[:2000]}, 0)
            o = d
        total.merge(o)
    for k, v in sorted(total.stats.items()):
        rep.add(k, v)
    for sig, lst in total.viol.items():
        rep.merge_violations(lst)
        rep.vcount[sig] = rep.vcount.get(sig, 0) - len(lst) + total.vcount[sig]
    for smp in total.samples:
        rep.sample(smp)
    return total


def finish_counts(rep, points, executions, distinct):
    rep.add("states", points)
    rep.add("transitions", executions)
    rep.add("traces_validated_against_impl", executions)
    rep.add("evaluations", executions)
    rep.add("distinct_nontrivial", distinct)


class Scratch:
    """Scratch directory outside /repo and /verif, removed on exit."""

    def __init__(self, tag):
        self.tag = tag

    def __enter__(self):
        base = os.environ.get("TMPDIR", "/tmp")
        self.path = tempfile.mkdtemp(prefix=f"vp-{self.tag}-", dir=base)
        return self.path

    def __exit__(self, *a):
        shutil.rmtree(self.path, ignore_errors=True)
