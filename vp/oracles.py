"""Terminal oracles shared by the E1-based checks (C03, C04, C05, C13, C19)."""
import ast
from collections import Counter

from . import refvm
from .refvm import BUILTIN_FAMILY, Cyclic, canon


PRIORITY = ("FROZENSET", "ADDITEMS", "DICT", "SETITEMS", "SETITEM", "BUILD", "NEWOBJ_EX", "NEWOBJ", "OBJ", "INST",
            "BINPERSID", "PERSID", "REDUCE", "APPENDS", "APPEND", "LIST", "DUP", "POP_MARK", "POP")


def suspect_from_names(names):
    for n in PRIORITY:
        if n in names:
            return n
    return "other"


def last_call_op(term):
    """Coarse shape of a program for signatures: the highest-priority 'interesting' opcode it contains."""
    ok, src = term.src
    if ok and isinstance(src, str):
        import re

        if re.search(r"^from \S+ import \S*\.", src, re.M):
            return "dotted-global"
    try:
        import pickletools

        names = {i.name for i, _a, _p in pickletools.genops(term.data)}
    except Exception:  # noqa: BLE001
        names = set()
    return suspect_from_names(names)
def _mult_missing(need, have):
    """Elements of multiset need not covered by multiset have."""
    c = Counter(need)
    c.subtract(Counter(have))
    return [k for k, n in c.items() if n > 0]


import re as _re

_OWN_VAR = _re.compile(r"^(_var\d+|result\d*)$")


def static_counts(tree):
    imports, calls = [], 0
    for node in ast.walk(tree):
        if isinstance(node, ast.ImportFrom):
            for a in node.names:
                imports.append(("import", node.module, a.name.split(".")[0]))
        elif isinstance(node, ast.Call):
            f = node.func
            if (isinstance(f, ast.Attribute) and f.attr in ("__setstate__", "update") and isinstance(f.value, ast.Name)
                    and _OWN_VAR.match(f.value.id)):
                continue  # fickling's own state-application statements (_varN.__setstate__(...)), not a pickle-chosen callee
            calls += 1
    return imports, calls


LATE = "late-mutation-of-call-argument"


REBOUND = "same-named-globals-rebound"


def _dealias(data, v_seq=None):
    """If the program resolves the same attribute name from different modules, return the program with those names made
    unique for the non-builtin modules (X -> X__from_1, ...); else None.  v_seq: the VM's (module, name) resolutions, which
    also cover STACK_GLOBAL; GLOBAL / INST arguments and the SHORT_BINUNICODE name operand of STACK_GLOBAL are rewritten."""
    import pickletools

    try:
        ops = list(pickletools.genops(data))
    except Exception:  # noqa: BLE001
        return None
    mods = {}
    pairs = list(v_seq or [])
    for info, arg, _pos in ops:
        if info.name in ("GLOBAL", "INST") and isinstance(arg, str) and " " in arg:
            pairs.append(tuple(arg.split(" ", 1)))
    for m, n in pairs:
        m = "builtins" if m in BUILTIN_FAMILY else m
        mods.setdefault(n, [])
        if m not in mods[n]:
            mods[n].append(m)
    clash = {n: ms for n, ms in mods.items() if len(ms) > 1}
    if not clash:
        return None
    # operands of STACK_GLOBAL: the two most recent string pushes before it (memo traffic in between is skipped)
    sg_name_at = {}
    for i, (info, arg, pos) in enumerate(ops):
        if info.name == "STACK_GLOBAL":
            strs = []
            k = i - 1
            while k >= 0 and len(strs) < 2:
                nm = ops[k][0].name
                if nm in ("MEMOIZE", "BINPUT", "LONG_BINPUT", "PUT"):
                    k -= 1
                    continue
                if nm == "SHORT_BINUNICODE":
                    strs.append(k)
                    k -= 1
                    continue
                break
            if len(strs) == 2:
                sg_name_at[strs[0]] = ops[strs[1]][1]  # index of the name push -> module string
    out = bytearray()
    for i, (info, arg, pos) in enumerate(ops):
        end = ops[i + 1][2] if i + 1 < len(ops) else len(data)
        if info.name in ("GLOBAL", "INST") and isinstance(arg, str) and " " in arg:
            m, n = arg.split(" ", 1)
            mk = "builtins" if m in BUILTIN_FAMILY else m
            if n in clash and mk != "builtins":
                n2 = f"{n}__from_{clash[n].index(mk)}"
                out += data[pos:pos + 1] + m.encode() + b"\n" + n2.encode() + b"\n"
                continue
        if i in sg_name_at and isinstance(arg, str) and arg in clash:
            m = sg_name_at[i]
            mk = "builtins" if m in BUILTIN_FAMILY else m
            if mk != "builtins" and mk in clash[arg]:
                n2 = f"{arg}__from_{clash[arg].index(mk)}".encode()
                if len(n2) < 256:
                    out += b"\x8c" + bytes([len(n2)]) + n2
                    continue
        out += data[pos:end]
    return bytes(out)


def _rebound_only(term, oracle):
    """True iff the program resolves same-named globals of different modules and the oracle is satisfied once those names
    are made unique: the mismatch is then the known conflation of bare names in the decompiled program, nothing else."""
    okv0, vm0 = term.vm
    data2 = _dealias(term.data, [(ev[1], ev[2]) for ev in vm0.world.log if ev[0] == "import"] if okv0 else None)
    if data2 is None or data2 == term.data:
        return False
    from . import e1

    t2 = e1.Term(term.cfg, term.seq, data2)
    o2 = e1.Out()
    try:
        oracle(t2, o2, _nested=True)
    except Exception:  # noqa: BLE001
        return False
    compared = o2.stats.get("event_comparisons", 0) + o2.stats.get("value_comparisons", 0)
    if not (compared > 0 and not o2.viol):
        return False
    # the known class is "one import statement per resolution, in order, and the bare names clash"; a program whose
    # decompilation lacks or reorders one of those imports is something else and is reported under its own signature
    okv, vm = term.vm
    okt, tree = term.tree
    if not (okv and okt):
        return False
    v_seq = [(ev[1], ev[2]) for ev in vm.world.log if ev[0] == "import"]
    names = {n for _m, n in v_seq}
    clash = {n for n in names if len({m for m, nn in v_seq if nn == n and m not in BUILTIN_FAMILY} |
                                     ({"builtins"} if any(nn == n and m in BUILTIN_FAMILY for m, nn in v_seq) else set())) > 1}
    d_seq = [(node.module, a.name) for node in ast.walk(tree) if isinstance(node, ast.ImportFrom) for a in node.names]
    # (globals of the builtins family are referred to without an import statement: they are not part of the sequence)
    norm = lambda seq: [(m, n) for m, n in seq if n in clash and m not in BUILTIN_FAMILY]  # noqa: E731
    return norm(v_seq) == norm(d_seq)


def c03_events(term, out, _nested=False):
    """Every import and call of the VM is performed (at least as often) by the decompiled program."""
    PROP = "C03"
    real_out = out
    out = out if _nested else _SigRewriter(real_out, term, c03_events)
    okv, vm = term.vm
    if not okv:
        out.stats.inc("vm_rejected_at_stop")
        return
    oks, src = term.src
    if not oks:
        out.stats.inc("refused_decompile")
        out.outcomes.add(("refused", type(src).__name__))
        return
    if vm.unordered_args:
        out.stats.inc("hash_order_dependent_program_excluded")
        return
    v_imp, v_calls, v_oth = refvm.events(vm.world)
    v_imp = [e for e in v_imp if e[1] not in BUILTIN_FAMILY]
    v_set = [e for e in v_oth if e[0] == "setstate"]
    oke, ex = term.stub_exec
    if not oke:
        # decompiled text does not run under stubs: fall back to a static count on the AST
        out.stats.inc("exec_failed_static_fallback")
        s_imp, s_calls = static_counts(term.tree[1])
        miss = _mult_missing(v_imp, s_imp)
        if miss:
            out.violate(PROP, f"C03|import-missing|static|{last_call_op(term)}",
                        f"VM resolves {miss[:2]} but the decompiled program has no such import: {src!r}",
                        term.replay(), len(term.seq))
        n_setstate = sum(1 for n in ast.walk(term.tree[1]) if isinstance(n, ast.Call) and isinstance(n.func, ast.Attribute)
                         and n.func.attr == "__setstate__")
        if len(v_set) > n_setstate:
            out.violate(PROP, f"C03|setstate-missing|static|{last_call_op(term)}",
                        f"VM applies state {len(v_set)} time(s) (BUILD), decompiled program has {n_setstate} __setstate__ call(s): {src!r}",
                        term.replay(), len(term.seq))
        if len(v_calls) > s_calls:
            out.violate(PROP, f"C03|call-missing|static|{last_call_op(term)}",
                        f"VM performs {len(v_calls)} call(s), decompiled program contains {s_calls}: {src!r}",
                        term.replay(), len(term.seq))
        return
    w, _ns = ex
    d_imp, d_calls, d_oth = refvm.events(w)
    d_set = [e for e in d_oth if e[0] == "setstate"]
    out.stats.inc("event_comparisons")
    miss = _mult_missing(v_set, d_set)
    if miss:
        out.violate(PROP, f"C03|setstate-missing|{last_call_op(term)}",
                    f"VM calls __setstate__ (BUILD) {_short(miss[0])} but the decompiled program does not: {src!r}",
                    term.replay(), len(term.seq))
    out.outcomes.add(("events", len(v_imp), len(v_calls)))
    miss = _mult_missing(v_imp, d_imp)
    if miss:
        out.violate(PROP, f"C03|import-missing|{last_call_op(term)}",
                    f"VM resolves {miss[:2]} not imported by decompiled program {src!r}", term.replay(), len(term.seq))
    miss = _mult_missing(v_calls, d_calls)
    if not miss:
        # a real call (REDUCE / OBJ / INST: callee(*args)) must be rendered as a call; only NEWOBJ's cls.__new__(cls, *args)
        # may be rendered either way (fickling documents NEWOBJ => cls(*args))
        v_real = [c for c, k in zip(v_calls, v_calls.kinds) if k == "call"]
        d_real = [c for c, k in zip(d_calls, d_calls.kinds) if k == "call"]
        wrong = _mult_missing(v_real, d_real)
        if wrong:
            out.violate(PROP, f"C03|call-rendered-as-__new__|{last_call_op(term)}",
                        f"VM calls {_short(wrong[0])} but the decompiled program only instantiates it through __new__: {src!r}",
                        term.replay(), len(term.seq))
    if miss:
        kind = miss[0][1] if isinstance(miss[0], tuple) and len(miss[0]) > 1 else "?"
        out.violate(PROP, f"C03|call-missing|{kind}|{last_call_op(term)}",
                    f"VM performs {_short(miss[0])} ({len(miss)} distinct missing) absent from decompiled program {src!r}",
                    term.replay(), len(term.seq))


class _SigRewriter:
    """Programs in which a mutable value is changed after it was passed to a call / applied as state form one known class
    (fickling mutates list/dict/set literals in place, so the call's arguments are rewritten retroactively)."""

    def __init__(self, out, term, oracle=None):
        self._out = out
        self._term = term
        self._oracle = oracle
        self._rebound = None
        self.stats = out.stats
        self.outcomes = out.outcomes

    def violate(self, prop, sig, desc, replay, size):
        okv, vm = self._term.vm
        if okv and (vm.late_mutation or refvm.late_mutation(vm.world)):
            sig = f"{prop}|{LATE}"
        elif self._oracle is not None:
            # same attribute name resolved from two modules: the decompiled program refers to both by the bare name, so the
            # later import rebinds the earlier one (known class, confirmed per program by making the names unique)
            if self._rebound is None:
                self._rebound = _rebound_only(self._term, self._oracle)
            if self._rebound:
                sig = f"{prop}|{REBOUND}"
        self._out.violate(prop, sig, desc, replay, size)


def _short(x, n=200):
    s = repr(x)
    return s if len(s) <= n else s[:n] + "..."


def c05_value(term, out, _nested=False):
    """exec(decompiled) under stubs builds the same value as the VM under the same stubs."""
    PROP = "C05"
    out = out if _nested else _SigRewriter(out, term, c05_value)
    okv, vm = term.vm
    if not okv:
        out.stats.inc("vm_rejected_at_stop")
        return
    if vm.unordered_args:
        out.stats.inc("hash_order_dependent_program_excluded")
        return
    try:
        want = canon(vm.result)
    except (Cyclic, RecursionError):
        out.stats.inc("cyclic_value_excluded")
        return
    oks, src = term.src
    if not oks:
        out.stats.inc("refused_decompile")
        out.outcomes.add(("refused", type(src).__name__))
        return
    oke, ex = term.stub_exec
    shape = last_call_op(term)
    if not oke:
        out.violate(PROP, f"C05|exec-fails|{type(ex).__name__}|{shape}",
                    f"decompiled source does not run: {type(ex).__name__}: {ex}; source {src!r}", term.replay(), len(term.seq))
        return
    _w, ns = ex
    if "result" not in dict.keys(ns):
        out.violate(PROP, f"C05|no-result|{shape}", f"decompiled source binds no result: {src!r}", term.replay(), len(term.seq))
        return
    try:
        got = canon(dict.__getitem__(ns, "result"))
    except (Cyclic, RecursionError):
        got = ("cyclic",)
    out.stats.inc("value_comparisons")
    out.outcomes.add(("value", hash(want) & 0xFFF))
    if got != want:
        out.violate(PROP, f"C05|value-differs|{shape}",
                    f"VM builds {_short(want)} but decompiled {src!r} builds {_short(got)}", term.replay(), len(term.seq))


def c04_floor(term, out):
    """Verdict of the public safety check is never below the floor the VM's behaviour demands."""
    from .vocab import NAME, RANK, floor_of

    PROP = "C04"
    okv, vm = term.vm
    if not okv:
        out.stats.inc("vm_rejected_at_stop")
        return
    fl, why = floor_of(vm.world)
    okp, p = term.pickled
    if not okp:
        out.stats.inc("refused_parse")
        return
    from fickling.analysis import check_safety

    try:
        sev = check_safety(p).severity.name
    except RecursionError:
        out.stats.inc("analysis_raises(C19)")
        return
    except Exception as e:  # noqa: BLE001
        out.stats.inc("analysis_raises(C19)")
        out.outcomes.add(("raises", type(e).__name__))
        return
    out.stats.inc("verdicts_compared")
    if fl > 0:
        out.stats.inc("verdicts_with_nonzero_floor")
    out.outcomes.add(("verdict", sev, fl))
    if RANK[sev] < fl:
        kind = _c04_kind(why, fl)
        sig = f"C04|{sev}<{NAME[fl]}|{kind}|{last_call_op(term)}"
        if kind.startswith("call-builtin-") and kind.endswith(".__setstate__"):
            # a builtin *method* named __setstate__ reached by a dotted name: fickling files every X.__setstate__(...) call
            # under "state application" and exempts it from the call analyses
            sig = "C04|builtin-method-named-__setstate__-treated-as-state-application"
        elif kind.startswith("call-builtin-"):
            # a builtin whose name was also imported from a (benign) standard-library module earlier
            name = kind[len("call-builtin-"):]
            if any(ev[0] == "import" and ev[2] == name and ev[1] not in BUILTIN_FAMILY for ev in vm.world.log):
                sig = f"C04|call-builtin-shadowed-by-stdlib-import|{name}"
        out.violate(PROP, sig,
                    f"verdict {sev} below floor {NAME[fl]}: {'; '.join(sorted(set(why)))}; decompiled "
                    f"{_short(term.src[1], 240)}", term.replay(), len(term.seq))


def _c04_kind(why, fl):
    tops = [w for w in why if ("OVERTLY_MALICIOUS)" in w and fl == 5 and "LIKELY" not in w.split("(")[-1])
            or (fl == 4 and "LIKELY_OVERTLY" in w) or (fl == 3 and "LIKELY_UNSAFE" in w)]
    w = (tops or why or ["?"])[0]
    if w.startswith("resolves non-stdlib"):
        return "resolve-nonstd"
    if w.startswith("resolves dangerous"):
        return "resolve-dangerous"
    if w.startswith("calls builtin"):
        return "call-builtin-" + w.split()[2]
    if w.startswith("calls non-stdlib"):
        return "call-nonstd"
    if w.startswith("calls a computed"):
        return "call-computed"
    return "?"


class _LoadsRecorder:
    """Replaces pickle.loads while the checked loader runs so that nothing is really unpickled."""

    def __init__(self):
        self.calls = []

    def __call__(self, data, *a, **k):
        self.calls.append(bytes(data))
        return ("loaded", len(self.calls))


def c19_total(term, out):
    """If the pickle decompiles, the safety check answers, and the answer serialises consistently."""
    import io
    import json
    import pickle

    PROP = "C19"
    oks, src = term.src
    if not oks:
        out.stats.inc("undecompilable_skipped")
        return
    okp, p = term.pickled
    from fickling.analysis import Severity, check_safety
    from fickling.exception import UnsafeFileError

    out.stats.inc("decompilable_programs")
    shape = _c19_shape(src)
    try:
        res = check_safety(p)
    except RecursionError:
        out.stats.inc("analysis_recursion_on_cyclic")
        return
    except Exception as e:  # noqa: BLE001
        out.violate(PROP, f"C19|check_safety-raises|{type(e).__name__}|{shape}",
                    f"check_safety raised {type(e).__name__}: {e} on decompilable {_short(src, 160)}", term.replay(), len(term.data))
        return
    for r in res.results:
        if not isinstance(getattr(r, "severity", None), Severity) or not isinstance(getattr(r, "message", None), str):
            out.violate(PROP, f"C19|malformed-finding|{type(r).__name__}|{shape}",
                        f"finding {r!r} lacks a Severity/str message for {_short(src, 160)}", term.replay(), len(term.data))
            return
    try:
        sev = res.severity
        d = res.to_dict()
        txt = json.dumps(d)
        assert json.loads(txt)["severity"] == sev.name
    except Exception as e:  # noqa: BLE001
        out.violate(PROP, f"C19|report-not-json|{type(e).__name__}|{shape}",
                    f"to_dict()/json.dumps failed: {type(e).__name__}: {e} for {_short(src, 160)}", term.replay(), len(term.data))
        return
    out.outcomes.add(("sev", sev.name))
    if len(term.data) % 8 == 0:
        # report written to a path that already exists (fresh temporary file; a file with an earlier report): still an answer
        import os
        import tempfile

        fd, jp = tempfile.mkstemp(prefix="vp-c19-", suffix=".json")
        os.close(fd)
        try:
            for round_ in ("empty file", "file with one report"):
                try:
                    r2 = check_safety(p, json_output_path=jp)
                    assert r2.severity == sev
                except Exception as e:  # noqa: BLE001
                    out.violate(PROP, f"C19|report-path-exists|{type(e).__name__}",
                                f"check_safety(json_output_path=<existing {round_}>) raised {type(e).__name__}: {e} for {_short(src, 120)}",
                                term.replay(), len(term.data))
                    break
            out.stats.inc("report_path_runs")
        finally:
            os.remove(jp)
    import fickling

    from .props.c06 import RawNonSeekable

    # the file object kinds a caller may hand to the loader: in memory, a raw stream that cannot seek, a buffered one
    streams = (lambda: io.BytesIO(term.data), lambda: RawNonSeekable(term.data), lambda: io.BufferedReader(RawNonSeekable(term.data)))
    for th, mk in zip((Severity.LIKELY_SAFE, Severity.SUSPICIOUS, Severity.LIKELY_UNSAFE), streams):
        rec = _LoadsRecorder()
        orig = pickle.loads
        pickle.loads = rec
        try:
            try:
                fickling.load(mk(), max_acceptable_severity=th)
                raised = None
            except UnsafeFileError as e:
                raised = e
            except Exception as e:  # noqa: BLE001
                out.violate(PROP, f"C19|loader-raises|{type(e).__name__}|{shape}",
                            f"fickling.load raised {type(e).__name__}: {e} instead of returning/UnsafeFileError for {_short(src, 160)}",
                            term.replay(), len(term.data))
                return
        finally:
            pickle.loads = orig
        out.stats.inc("loader_calls")
        if raised is not None:
            if raised.info != d:
                out.violate(PROP, f"C19|info-differs|threshold={th.name}|{shape}",
                            f"threshold {th.name}: UnsafeFileError.info {_short(raised.info)} != check_safety().to_dict() {_short(d)}",
                            term.replay(), len(term.data))
            out.stats.inc("loader_raised_unsafe")
        else:
            out.stats.inc("loader_returned")


def _c19_shape(src):
    import re

    m = re.findall(r"^from (\S+) import (\S+)", src, re.M)
    names = sorted({n for _m, n in m})
    special = [n for n in names if n in ("eval", "exec", "compile", "open", "load", "getitem", "attrgetter", "itemgetter",
                                         "methodcaller", "runstring", "_load_from_bytes", "_run_code", "execWrapper",
                                         "__setstate__")]
    return "import-" + (special[0] if special else "other")
