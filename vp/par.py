"""Process-parallel map that survives the death of a worker.

multiprocessing.Pool waits forever for the result of a task whose worker process died (segfault, os._exit, OOM kill):
a change in the code under test that crashes the interpreter would hang the check.  This map uses
concurrent.futures, which reports a broken pool; the unfinished items are then retried one at a time in fresh
single-worker pools, so the item that kills its worker is identified and reported, and every other item is still checked.
"""
import multiprocessing as mp
import os
from concurrent.futures import ProcessPoolExecutor, as_completed
from concurrent.futures.process import BrokenProcessPool

from .common import ncpu

ITEM_TIMEOUT = int(os.environ.get("VERIF_ITEM_TIMEOUT", "900"))


class WorkerDied:
    """Marker result for an item whose worker process died or exceeded the time limit."""

    def __init__(self, item, why):
        self.item = item
        self.why = why


def _run_chunk(fn, chunk):
    return [fn(x) for x in chunk]


def pmap_unordered(fn, items, chunksize=8, procs=None):
    """Yield fn(item) for every item (any order). Yields WorkerDied(item, why) for items that kill their worker."""
    items = list(items)
    n = procs or ncpu()
    if n <= 1 or len(items) <= 1:
        for it in items:
            yield fn(it)
        return
    chunks = [items[i:i + chunksize] for i in range(0, len(items), chunksize)]
    ctx = mp.get_context("fork")
    pending = {}
    broken = False
    ex = ProcessPoolExecutor(max_workers=n, mp_context=ctx)
    try:
        for c in chunks:
            pending[ex.submit(_run_chunk, fn, c)] = c
        done_chunks = set()
        try:
            for fut in as_completed(list(pending)):
                c = pending[fut]
                try:
                    res = fut.result()
                except BrokenProcessPool:
                    broken = True
                    break
                done_chunks.add(id(c))
                for r in res:
                    yield r
        except BrokenProcessPool:
            broken = True
    finally:
        ex.shutdown(wait=not broken, cancel_futures=True)
    if not broken:
        return
    # retry what did not finish, one item per fresh single-worker pool
    left = [x for c in chunks if id(c) not in done_chunks for x in c]
    for it in left:
        ex1 = ProcessPoolExecutor(max_workers=1, mp_context=ctx)
        try:
            f = ex1.submit(fn, it)
            try:
                yield f.result(timeout=ITEM_TIMEOUT)
            except BrokenProcessPool:
                yield WorkerDied(it, "the worker process died (crash or exit of the interpreter)")
            except TimeoutError:
                yield WorkerDied(it, f"no result within {ITEM_TIMEOUT}s")
                for p in list(getattr(ex1, "_processes", {}).values()):
                    p.kill()
        finally:
            ex1.shutdown(wait=False, cancel_futures=True)
