"""E4: audit-hook monitor for 'absence of effects' oracles (hooks cannot be removed: install once per process)."""
import os
import sys
import sysconfig

FORBIDDEN_PREFIXES = ("os.system", "os.exec", "os.posix_spawn", "os.spawn", "os.fork", "os.forkpty", "subprocess.Popen", "socket.",
                      "ctypes.", "pickle.find_class", "marshal.loads", "os.startfile", "pty.spawn", "webbrowser.open",
                      "urllib.Request", "http.client.connect", "ftplib.connect", "smtplib.connect", "os.kill", "os.putenv",
                      "os.remove", "os.rename", "os.rmdir", "os.mkdir", "os.chmod", "os.chown", "os.symlink", "os.link", "os.truncate",
                      "shutil.", "tempfile.mkstemp", "tempfile.mkdtemp", "code.__new__", "function.__new__", "builtins.input",
                      "sys._getframe_never", "os.unsetenv", "glob.glob_never")
_STDLIB = tuple(p for p in {sysconfig.get_paths().get("stdlib"), sysconfig.get_paths().get("platstdlib"),
                            sysconfig.get_paths().get("purelib"), os.path.dirname(os.__file__)} if p)


class Monitor:
    def __init__(self):
        self.on = False
        self.events = []
        self.allowed_write = set()
        self.watch_modules = ("vp_canary_mod", "vp_canary_pkg", "vp_canary_pkg.sub", "vp_sink", "vp_objs")
        self.installed = False

    def install(self):
        if not self.installed:
            sys.addaudithook(self._hook)
            self.installed = True

    def _hook(self, event, args):
        if not self.on:
            return
        try:
            if event == "import":
                name = args[0]
                if name in self.watch_modules or name.split(".")[0] in ("vp_canary_mod", "vp_canary_pkg"):
                    self.events.append(("import-of-named-module", name))
                elif getattr(self, "tokens", None) and (name.split(".")[0] in self.tokens or name.split(".")[-1] in self.tokens):
                    # the import machinery only raises this event for modules that are not loaded yet: a module whose name
                    # occurs in the input is being imported because of the input
                    self.events.append(("import-of-input-chosen-name", name))
                return
            if event == "open":
                path, mode = args[0], args[1]
                flags = args[2] if len(args) > 2 else 0
                writing = (isinstance(mode, str) and any(c in mode for c in "wax+")) or (
                    mode is None and isinstance(flags, int) and flags & (os.O_WRONLY | os.O_RDWR | os.O_CREAT))
                if writing and str(path) not in self.allowed_write:
                    self.events.append(("open-for-write", str(path), str(mode)))
                return
            if event == "exec":
                code = args[0]
                fn = getattr(code, "co_filename", "?")
                if not _is_lib(fn):
                    self.events.append(("exec", fn, getattr(code, "co_name", "?")))
                return
            if event == "compile":
                fn = args[1] if len(args) > 1 else "?"
                if not _is_lib(fn):
                    src = args[0]
                    self.events.append(("compile", str(fn), (src[:60] if isinstance(src, (str, bytes)) else type(src).__name__)))
                return
            for p in FORBIDDEN_PREFIXES:
                if event.startswith(p):
                    self.events.append((event,) + tuple(repr(a)[:80] for a in args[:2]))
                    return
        except Exception as e:  # noqa: BLE001 - never let the monitor disturb the monitored code
            self.events.append(("monitor-error", repr(e)))

    def run(self, fn, tokens=frozenset()):
        """Run fn() monitored. Returns (outcome, events, new watched modules).
        tokens: identifier-like strings occurring in the input; importing a module named after one of them is an effect
        'named by the input' (e.g. a codec module looked up from an encoding name the input supplies)."""
        before = set(sys.modules)
        self.events = []
        self.tokens = tokens
        self.on = True
        try:
            try:
                fn()
                outcome = "returned"
            except BaseException as e:  # noqa: BLE001
                outcome = "raised:" + type(e).__name__
        finally:
            self.on = False
        new = [m for m in set(sys.modules) - before if m in self.watch_modules or m.split(".")[0] in ("vp_canary_mod", "vp_canary_pkg")]
        return outcome, list(self.events), new


def _is_lib(fn):
    if not isinstance(fn, str):
        try:
            fn = os.fsdecode(fn)
        except Exception:  # noqa: BLE001
            return False
    return fn.startswith(_STDLIB) or fn.startswith("<frozen ")


MONITOR = Monitor()
