"""Execute decompiled source against the same inert stubs the reference VM uses."""
from .refvm import World, persistent_load


class ModStub:
    def __init__(self, world, name):
        self.__dict__["_w"] = world
        self.__dict__["_name"] = name

    def __getattr__(self, attr):
        return self._w.resolve(self._name, attr)


class Unpickler:
    def __init__(self, world):
        self._w = world

    def persistent_load(self, pid):
        return persistent_load(self._w, pid)


class NS(dict):
    """Local namespace: free names are builtins-family stubs (no import event, as in Python)."""

    def __init__(self, world):
        super().__init__()
        self._w = world

    def __missing__(self, key):
        import re

        if re.fullmatch(r"_var\d+|result\d*", key):
            # a generated variable used before its assignment is an error, not a builtin
            raise NameError(f"name {key!r} is used before it is assigned")
        if key == "UNPICKLER":
            return Unpickler(self._w)
        if key == "frozenset":
            return frozenset
        return self._w.G("builtins", key)


def run_source(src, result_names=("result",)):
    """exec(src) in a fresh stub world. Returns (world, namespace). Raises what exec raises."""
    w = World()

    def stub_import(name, globals=None, locals=None, fromlist=(), level=0):
        return ModStub(w, name)

    ns = NS(w)
    code = compile(src, "<decompiled>", "exec")
    exec(code, {"__builtins__": {"__import__": stub_import}}, ns)
    return w, ns
