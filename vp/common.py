"""Shared plumbing: violations, known findings, replay artefacts, evidence files."""
import hashlib
import json
import os
import subprocess
import sys
import time

VERIF = os.path.dirname(os.path.dirname(os.path.abspath(__file__)))
# overridable so that mutant / seeded-defect runs do not overwrite the committed evidence
EVIDENCE_DIR = os.environ.get("VERIF_EVIDENCE_DIR") or os.path.join(VERIF, "evidence")
REPLAY_DIR = os.environ.get("VERIF_REPLAY_DIR") or os.path.join(VERIF, "replays")
KNOWN_FINDINGS = os.path.join(VERIF, "known_findings.json")
EVIDENCE_SCHEMA = "/root/.vp/EVIDENCE.schema.json"

MAX_REPLAYS_PER_SIG = 3


def seed() -> int:
    try:
        return int(os.environ.get("VERIF_SEED", "0"))
    except ValueError:
        return 0


def ncpu() -> int:
    try:
        n = int(os.environ.get("VERIF_JOBS", "0"))
    except ValueError:
        n = 0
    return n or min(16, os.cpu_count() or 1)


def digest(obj) -> str:
    return hashlib.blake2b(repr(obj).encode("utf-8", "backslashreplace"), digest_size=8).hexdigest()


def jsonable(x):
    """Best-effort conversion of harness values to JSON."""
    if isinstance(x, (str, int, float, bool)) or x is None:
        return x
    if isinstance(x, (bytes, bytearray)):
        return {"hex": bytes(x).hex()}
    if isinstance(x, dict):
        return {str(k): jsonable(v) for k, v in x.items()}
    if isinstance(x, (list, tuple, set, frozenset)):
        return [jsonable(v) for v in x]
    return repr(x)


class Violation:
    __slots__ = ("prop", "sig", "desc", "replay", "size")

    def __init__(self, prop, sig, desc, replay, size=0):
        self.prop = prop
        self.sig = sig  # narrow class of the failing case (call site + shape)
        self.desc = desc
        self.replay = replay  # dict sufficient to re-execute the case without the explorer
        self.size = size  # ordering key: smaller = simpler counterexample

    def astuple(self):
        return (self.prop, self.sig, self.desc, self.replay, self.size)


def load_known():
    if os.environ.get("VERIF_IGNORE_KNOWN"):  # debugging aid: show every violation
        return []
    if not os.path.exists(KNOWN_FINDINGS):
        return []
    with open(KNOWN_FINDINGS) as f:
        return json.load(f)["findings"]


class Report:
    """Accumulates what one check run covered and what it found."""

    def __init__(self, prop, tier, level="model_checking"):
        self.prop = prop
        self.tier = tier
        self.level = level
        self.t0 = time.time()
        self.cov = {}
        self.samples = []
        self.assumptions = []
        self.violations = {}  # sig -> list[Violation] (shortest kept)
        self.vcount = {}  # sig -> count
        self.notes = []

    # -- coverage ---------------------------------------------------------------------------
    def add(self, key, n=1):
        self.cov[key] = self.cov.get(key, 0) + n

    def set(self, key, value):
        self.cov[key] = value

    def sample(self, s, cap=8):
        if len(self.samples) < cap:
            self.samples.append(jsonable(s))

    # -- violations -------------------------------------------------------------------------
    def violation(self, v: Violation):
        self.vcount[v.sig] = self.vcount.get(v.sig, 0) + 1
        lst = self.violations.setdefault(v.sig, [])
        lst.append(v)
        lst.sort(key=lambda x: (x.size, repr(x.replay)))
        del lst[MAX_REPLAYS_PER_SIG:]

    def violate(self, sig, desc, replay, size=0):
        self.violation(Violation(self.prop, sig, desc, replay, size))

    def merge_violations(self, tuples):
        for t in tuples:
            self.violation(Violation(*t))

    # -- finishing --------------------------------------------------------------------------
    def finish(self, exhaustive=True) -> int:
        known = [k for k in load_known() if k["property"] == self.prop]
        open_sigs = {k["signature"]: k for k in known if k.get("status") == "open"}
        rc = 0
        lines = []
        n_known = 0
        n_new = 0
        for sig in sorted(self.violations):
            vs = self.violations[sig]
            k = _match(sig, open_sigs)
            if k is not None:
                n_known += self.vcount[sig]
                lines.append(
                    f"KNOWN-FINDING: property={self.prop} {k['signature']} :: {k['description']} "
                    f"[{self.vcount[sig]} case(s) under {sig}]"
                )
                continue
            n_new += self.vcount[sig]
            rc = 1
            os.makedirs(os.path.join(REPLAY_DIR, self.prop), exist_ok=True)
            for v in vs:
                body = {
                    "property": self.prop,
                    "signature": sig,
                    "description": v.desc,
                    "case": jsonable(v.replay),
                    "count_with_this_signature": self.vcount[sig],
                }
                path = os.path.join(REPLAY_DIR, self.prop, f"{digest((sig, v.replay))}.json")
                with open(path, "w") as f:
                    json.dump(body, f, indent=1)
                lines.append(f"VIOLATION property={self.prop} replay={path}")
                lines.append(f"  [{sig}] {v.desc}")
        # de-duplicate KNOWN-FINDING lines per listed finding
        seen = set()
        for ln in lines:
            if ln.startswith("KNOWN-FINDING"):
                key = ln.split(" :: ")[0]
                if key in seen:
                    continue
                seen.add(key)
            print(ln)
        self.write_evidence(n_new, n_known, exhaustive)
        wall = time.time() - self.t0
        summary = {k: v for k, v in self.cov.items() if isinstance(v, (int, float))}
        print(
            f"[{self.prop}] tier={self.tier} wall={wall:.1f}s violations={n_new} "
            f"known_finding_cases={n_known} coverage={json.dumps(summary)}"
        )
        sys.stdout.flush()
        return rc

    def write_evidence(self, n_new, n_known, exhaustive):
        cov = dict(self.cov)
        cov.setdefault("samples", self.samples or ["(no sample recorded)"])
        cov["exhaustive"] = bool(exhaustive)
        cov["known_finding_cases"] = n_known
        cov["violation_signatures"] = {s: c for s, c in sorted(self.vcount.items())}
        if self.notes:
            cov["notes"] = self.notes
        ev = {
            "property_id": self.prop,
            "tier": self.tier,
            "seed": seed(),
            "level": self.level,
            "coverage": cov,
            "assumptions": self.assumptions,
            "wall_s": round(time.time() - self.t0, 2),
            "violations": n_new,
        }
        os.makedirs(EVIDENCE_DIR, exist_ok=True)
        path = os.path.join(EVIDENCE_DIR, f"{self.prop}.json")
        tmp = path + ".tmp"
        with open(tmp, "w") as f:
            json.dump(ev, f, indent=1, sort_keys=True)
        os.replace(tmp, path)
        _validate(path)


def _match(sig, open_sigs):
    """A listed finding matches a violation signature if it equals it or is a '|'-prefix of it."""
    if sig in open_sigs:
        return open_sigs[sig]
    for s, k in open_sigs.items():
        if sig.startswith(s + "|"):
            return k
    return None


def _validate(path):
    if not os.path.exists(EVIDENCE_SCHEMA):
        return
    code = (
        "import json,sys,jsonschema;"
        "jsonschema.validate(json.load(open(sys.argv[1])),json.load(open(sys.argv[2])))"
    )
    try:
        r = subprocess.run(
            ["python3-vt", "-c", code, path, EVIDENCE_SCHEMA], capture_output=True, text=True, timeout=60
        )
    except (OSError, subprocess.TimeoutExpired):
        return
    if r.returncode != 0:
        print(f"EVIDENCE-INVALID {path}: {r.stderr.strip().splitlines()[-1:]}")
