"""Per-item time limit inside a worker process: code under test that stops terminating (e.g. ast.walk over a cyclic AST)
must become a reported violation, not a check that never ends."""
import os
import signal
from contextlib import contextmanager

DEFAULT = int(os.environ.get("VERIF_ITEM_SECONDS", "120"))


class Timeout(BaseException):
    """BaseException so that generic `except Exception` handlers in the harness or in the code under test cannot swallow it."""


@contextmanager
def limit(seconds=None):
    seconds = seconds or DEFAULT
    if os.environ.get("VERIF_ITEM_SECONDS"):
        seconds = min(seconds, DEFAULT)
    if not hasattr(signal, "setitimer"):
        yield
        return

    def handler(signum, frame):
        raise Timeout(f"no result within {seconds}s")

    try:
        old = signal.signal(signal.SIGALRM, handler)
    except ValueError:  # not in the main thread
        yield
        return
    prev = signal.setitimer(signal.ITIMER_REAL, seconds)
    try:
        yield
    finally:
        signal.setitimer(signal.ITIMER_REAL, 0)
        signal.signal(signal.SIGALRM, old)
        if prev and prev[0] > 0:
            signal.setitimer(signal.ITIMER_REAL, prev[0])
