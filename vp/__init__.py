import os
import sys

# mutant / seeded-defect runs point VERIF_REPO at a scratch copy of the repository; the registered
# commands leave it unset and import fickling from /repo's working tree (editable install)
_repo = os.environ.get("VERIF_REPO")
if _repo and _repo not in sys.path:
    sys.path.insert(0, _repo)
