"""E2: breadth-first exploration of operation histories of a stateful API against a reference model.

A state is represented by the history that reaches it and is rebuilt by replay on a pristine
process state (`system.fresh()`).  States are merged on `system.key(ctx, model)`, which must contain
everything the operations read (argued per system).  After every step `system.check` compares the
real state / behaviour with the model.
"""
from collections import deque


class System:
    """Interface implemented per property."""

    ops = ()

    def fresh(self):
        """Reset the real world to pristine; return (ctx, model_state)."""
        raise NotImplementedError

    def enabled(self, ctx, model, op):
        return True

    def apply(self, ctx, model, op):
        """Execute op on the real world and on the model. Returns (model', observation)."""
        raise NotImplementedError

    def check(self, ctx, model, op, obs):
        """Return list of (signature, description) mismatches after this step."""
        return []

    def key(self, ctx, model):
        raise NotImplementedError

    def cleanup(self, ctx):
        pass


def replay(system, hist, want_key=False):
    """Rebuild the state reached by hist. Returns (ctx, model, problems_of_last_step[, key]).
    The state key is taken *before* the check runs: the check's own reads (probes, views) may fill caches, and a key
    computed afterwards would merge 'edit' with 'edit, then read' and hide stale-cache behaviour."""
    from .watchdog import Timeout, limit

    ctx, model = system.fresh()
    problems = []
    key = None
    try:
        with limit(120):
            for i, op in enumerate(hist):
                model, obs = system.apply(ctx, model, op)
                if i == len(hist) - 1:
                    if want_key:
                        key = system.key(ctx, model)
                    problems = system.check(ctx, model, op, obs)
    except Timeout as e:
        problems = [("does-not-terminate", f"{e} while replaying this history")]
        key = key or ("timeout", tuple(map(repr, hist)))
    if want_key:
        if not hist:
            key = system.key(ctx, model)
        return ctx, model, problems, key
    return ctx, model, problems


def explore(system, depth, report, prop, roots=((),), stats=None, merge=True):
    """BFS to the given depth. Violating states are reported and not expanded further.
    merge=False explores every history (no state matching): robust against state the key cannot see."""
    seen = set()
    frontier = deque()
    nstates = ntrans = nchecks = 0
    maxdepth = 0
    for r in roots:
        ctx, model, _, k = replay(system, list(r), want_key=True)
        system.cleanup(ctx)
        if k not in seen:
            seen.add(k)
            frontier.append(list(r))
            nstates += 1
    while frontier:
        hist = frontier.popleft()
        if len(hist) >= depth:
            continue
        ctx, model, _ = replay(system, hist)
        ops = [op for op in system.ops if system.enabled(ctx, model, op)]
        system.cleanup(ctx)
        for op in ops:
            nh = hist + [op]
            ctx, model, problems, k0 = replay(system, nh, want_key=True)
            ntrans += 1
            nchecks += 1
            maxdepth = max(maxdepth, len(nh))
            if problems:
                for sig, desc in problems:
                    report.violate(sig, f"history {nh}: {desc}", {"engine": "E2", "history": nh}, len(nh))
                system.cleanup(ctx)
                continue
            k = k0 if merge else tuple(nh)
            system.cleanup(ctx)
            if k not in seen:
                seen.add(k)
                nstates += 1
                frontier.append(nh)
                if len(nh) in (2, 3):
                    report.sample({"history": nh}, cap=6)
    report.add("states", nstates)
    report.add("transitions", ntrans)
    report.add("traces_validated_against_impl", ntrans)
    report.add("evaluations", ntrans)
    report.add("distinct_nontrivial", nstates)
    report.set("max_depth", max(maxdepth, report.cov.get("max_depth", 0)))
    return nstates, ntrans


class ModuleState:
    """Snapshot / restore of the data attributes of modules, so that `fresh()` really is a pristine
    process state even if the library keeps hidden module-level state (flags, caches, singletons)."""

    def __init__(self, modules):
        import copy
        import types

        self.modules = list(modules)
        self._skip = (types.FunctionType, types.ModuleType, type, types.BuiltinFunctionType)
        self.snap = {}
        for m in self.modules:
            d = {}
            for k, v in vars(m).items():
                if k.startswith("__") or isinstance(v, self._skip):
                    continue
                try:
                    d[k] = copy.deepcopy(v)
                except Exception:  # noqa: BLE001
                    d[k] = v
            self.snap[m] = d
        # data attributes of the classes the modules define (a process-wide cache kept on a class is module state too)
        self.csnap = {}
        for m in self.modules:
            for cls in [v for v in vars(m).values() if isinstance(v, type) and getattr(v, "__module__", None) == m.__name__]:
                self.csnap[cls] = {k: self._copy(v) for k, v in vars(cls).items() if self._is_data(k, v)}

    @staticmethod
    def _copy(v):
        import copy

        try:
            return copy.deepcopy(v)
        except Exception:  # noqa: BLE001
            return v

    @staticmethod
    def _is_data(k, v):
        import types

        if k.startswith("__") or k.startswith("_abc_"):
            return False
        return not isinstance(v, (types.FunctionType, types.BuiltinFunctionType, types.MethodDescriptorType, types.GetSetDescriptorType,
                                  types.MemberDescriptorType, property, staticmethod, classmethod, type))

    def restore_classes(self):
        for cls, d in self.csnap.items():
            for k in [k for k, v in vars(cls).items() if self._is_data(k, v) and k not in d]:
                try:
                    delattr(cls, k)
                except Exception:  # noqa: BLE001
                    pass
            for k, v in d.items():
                cur = vars(cls).get(k, None)
                try:
                    same = cur is v or cur == v
                except Exception:  # noqa: BLE001
                    same = False
                if not same:
                    try:
                        setattr(cls, k, self._copy(v))
                    except Exception:  # noqa: BLE001
                        pass

    def restore(self):
        import copy

        self.restore_classes()

        for m, d in self.snap.items():
            for k in [k for k, v in vars(m).items() if not k.startswith("__") and not isinstance(v, self._skip) and k not in d]:
                delattr(m, k)
            for k, v in d.items():
                cur = getattr(m, k, None)
                if isinstance(cur, dict) and isinstance(v, dict):
                    if cur != v:
                        cur.clear()
                        cur.update(copy.deepcopy(v))
                elif isinstance(cur, list) and isinstance(v, list):
                    if cur != v:
                        cur[:] = copy.deepcopy(v)
                elif isinstance(cur, set) and isinstance(v, set):
                    if cur != v:
                        cur.clear()
                        cur.update(v)
                else:
                    try:
                        same = cur is v or cur == v
                    except Exception:  # noqa: BLE001
                        same = False
                    if not same:
                        setattr(m, k, copy.deepcopy(v))
