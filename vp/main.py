import importlib
import os
import sys


def main(argv):
    if len(argv) < 1:
        print("usage: vcheck <Cxx> [--tier quick|thorough] [--replay file]")
        return 2
    repo = os.environ.get("VERIF_REPO")
    if repo:
        sys.path.insert(0, repo)
    prop = argv[0].upper()
    tier = os.environ.get("VERIF_TIER", "quick")
    replay = None
    i = 1
    while i < len(argv):
        if argv[i] == "--tier":
            tier = argv[i + 1]
            i += 2
        elif argv[i] == "--replay":
            replay = argv[i + 1]
            i += 2
        else:
            print(f"unknown argument {argv[i]}")
            return 2
    if tier not in ("quick", "thorough"):
        tier = "quick"
    sys.setrecursionlimit(3000)
    mod = importlib.import_module(f"vp.props.{prop.lower()}")
    if replay:
        return mod.replay(replay)
    return mod.check(tier)


if __name__ == "__main__":
    sys.exit(main(sys.argv[1:]))
