import importlib
import os
import sys


def main(argv):
    if len(argv) < 1:
        print("usage: vcheck <Cxx> [--tier quick|thorough] [--replay file]")
        return 2
    repo = os.environ.get("VERIF_REPO")
    if repo:
        sys.path.insert(0, repo)
    prop = argv[0].upper()
    tier = os.environ.get("VERIF_TIER", "quick")
    replay = None
    i = 1
    while i < len(argv):
        if argv[i] == "--tier":
            tier = argv[i + 1]
            i += 2
        elif argv[i] == "--replay":
            replay = argv[i + 1]
            i += 2
        else:
            print(f"unknown argument {argv[i]}")
            return 2
    if tier not in ("quick", "thorough"):
        tier = "quick"
    sys.setrecursionlimit(3000)
    mod = importlib.import_module(f"vp.props.{prop.lower()}")
    if replay:
        return mod.replay(replay)
    from .watchdog import Timeout

    try:
        return mod.check(tier)
    except (Exception, Timeout) as e:  # noqa: BLE001
        # The checks do not raise on the tree they were built for.  An exception escaping one means the code under test
        # behaved in a way no oracle anticipated (e.g. infinite recursion in a comparison operator): report it as a
        # violation with a replayable record instead of dying without a verdict.
        import json
        import traceback

        from .common import REPLAY_DIR, digest

        tb = traceback.format_exc()
        frames = traceback.extract_tb(e.__traceback__)
        where = next((f"{os.path.basename(fr.filename)}:{fr.name}" for fr in reversed(frames) if "/fickling/" in fr.filename), "harness")
        os.makedirs(os.path.join(REPLAY_DIR, prop), exist_ok=True)
        path = os.path.join(REPLAY_DIR, prop, f"{digest(tb)}.json")
        with open(path, "w") as f:
            json.dump({"property": prop, "signature": f"{prop}|unexpected-exception|{type(e).__name__}|{where}", "description": str(e)[:500],
                       "case": {"traceback": tb[-4000:]}}, f, indent=1)
        print(f"VIOLATION property={prop} replay={path}")
        print(f"  [{prop}|unexpected-exception|{type(e).__name__}|{where}] {type(e).__name__}: {str(e)[:300]} (uncaught in the check; traceback in the replay file)")
        return 1


if __name__ == "__main__":
    sys.exit(main(sys.argv[1:]))
