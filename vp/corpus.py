"""E5 generators: deterministic enumerations of plain-data values, objects and their pickles."""
import pickle

from .asm import strip_frames

SCALARS_SMALL = [None, True, False, 0, 1, -1, 255, 256, 65535, 65536, 2**31 - 1, 2**31, -(2**31), 2**63,
                 10**30, 1.5, -0.0, float("inf"), float("-inf"), float("nan"), "", "a", "é", "\U0001f600", "a\udc80", "a\nb", "q'\"\\", b"", b"ab",
                 b"\x00\xff"]
SCALARS_BIG = [2**2048, "x" * 255, "x" * 256, b"x" * 255, b"x" * 256, -(2**63) - 1, 1e300, "123", b"12"]


def _hashable(v):
    try:
        hash(v)
        return True
    except TypeError:
        return False


def containers_of(children, wide=True):
    """Containers over a list of child values (one level)."""
    out = [[], (), {}, set(), frozenset()]
    for c in children:
        out.append([c])
        out.append((c,))
        out.append({"k": c})
        if _hashable(c):
            out.append({c})
            out.append(frozenset([c]))
            out.append({c: 1})
    n = len(children)
    for i in range(n):
        a, b = children[i], children[(i + 1) % n]
        out.append([a, b])
        out.append((a, b))
        out.append({"x": a, "y": b})
        if _hashable(a) and _hashable(b) and not _same_key(a, b):
            out.append({a, b})
            out.append(frozenset([a, b]))
            out.append({a: b})
    if wide and n >= 4:
        for i in range(0, n - 3, 3):
            a, b, c, d = children[i : i + 4]
            out.append([a, b, c])
            out.append((a, b, c))
            out.append((a, b, c, d))
            out.append([a, b, c, d])
    return out


def _same_key(a, b):
    try:
        return a == b and hash(a) == hash(b)
    except TypeError:
        return False


def sharing(x):
    return [[x, x], (x, [x]), {"a": x, "b": x}, [x, [x, x]], (x, x, x)]


def plain_values(tier="quick"):
    sc = list(SCALARS_SMALL) + (list(SCALARS_BIG) if tier == "thorough" else [2**2048, "x" * 256, b"x" * 256])
    vals = list(sc)
    l1 = containers_of(sc, wide=True)
    vals += l1
    # level 2: containers over a subset of level-1 containers
    step = 7 if tier == "quick" else 2
    sub = l1[::step]
    vals += containers_of(sub, wide=(tier == "thorough"))
    for x in ([], [1], {}, {"a": 1}, set(), {1}, [[], {}], {"k": [1]}, [0, "a"], {1: (2,)}, [set()]):
        vals += sharing(x)
    # mutable shared and mutated after first reference: handled by the pickler via memo
    d = {"a": 1}
    vals.append([d, d])
    # equal-but-different constants side by side (caches keyed by equality confuse them)
    vals += [[0.0, -0.0], [-0.0, 0.0], [1.0, True, 1], [True, 1.0], (0, False, 0.0), [1, True], {"a": 0.0, "b": -0.0}, 0.0]
    vals.append(list(range(300)))
    vals.append([[i] for i in range(300)])  # > 255 memo entries at protocols that memoise lists
    vals.append({str(i): i for i in range(20)})
    return vals


def pickles_of(value, protocols=range(6), unframed=True):
    """(tag, bytes) for every protocol, framed and FRAME-stripped."""
    out = []
    for proto in protocols:
        try:
            b = pickle.dumps(value, protocol=proto)
        except Exception:  # noqa: BLE001
            continue
        out.append((f"proto{proto}", b))
        if unframed and proto >= 4:
            s = strip_frames(b)
            if s != b:
                out.append((f"proto{proto}-noframe", s))
    return out


def object_values():
    import collections

    import vp_objs as o

    shared = o.Plain(z=1)
    inner = o.Outer.Inner(3)
    vals = [
        o.Plain(),
        o.Plain(a=1, b="x"),
        o.Plain(a=[1, 2], b={"k": (1, 2)}),
        o.Slotted(1, "s"),
        o.Slotted(),
        o.Both(1, 2, 3),
        o.NewArgs(1, 2),
        o.NewArgsEx(1, k=5),
        o.NewArgsExOD(2, k=6),
        o.Reduced(),
        o.Reduced(1, "a"),
        o.ReducedState(1),
        o.CustomState(9),
        o.Point(1, 2),
        inner,
        [shared, shared],
        {"a": shared, "b": [shared]},
        (o.Plain(child=o.Plain(leaf=1)),),
        [o.Reduced(o.Reduced(1))],
        collections.OrderedDict([("a", 1), ("b", [2])]),
        collections.OrderedDict(),
        collections.defaultdict(list, {"a": [1]}),
        collections.Counter("aab"),
        collections.deque([1, 2, 3]),
        [o.Plain(i=i) for i in range(3)],
        {"objs": [o.Slotted(i, i) for i in range(2)], "n": 2},
        o.Plain(s={1, 2}, f=frozenset([3])),
        bytearray(b"abc"),
        complex(1, 2),
        range(3),
        slice(1, 2),
        o.Plain,  # a class by reference
        o.make,  # a function by reference
        [o.Plain(i=i) for i in range(260)],
    ]
    return vals
