"""E1: product explorer  reference pickle VM  x  fickling Interpreter.

Every sequence over a typed opcode alphabet up to a depth bound is executed on both machines.
A transition (prefix -> prefix+symbol) is *enabled* iff the reference VM executes the extended prefix
without raising and the symbol's typing guard holds.  After every enabled transition the step
oracles run; if the VM could STOP there, the terminal oracles run on prefix+symbol+STOP.
Nothing is sampled and nothing is pruned: distinct joint states are counted (by canonical key) only
to report the size of the explored graph.
"""
import ast
import hashlib
import io
import multiprocessing as mp
import os
import sys
import time
from contextlib import redirect_stdout

from . import refvm
from .common import ncpu, seed
from .watchdog import Timeout, limit


def _fk():
    import fickling.fickle as fk

    return fk


# ---------------------------------------------------------------------------------------------
# canonical keys (reporting only)
# ---------------------------------------------------------------------------------------------


def _canon_val(v, ids):
    t = type(v)
    if v is None or t in (bool, int, str, bytes):
        return v
    if t is float:
        return repr(v)
    if v is refvm.MARK:
        return "MARK"
    k = id(v)
    if k in ids:
        return ("ref", ids[k])
    ids[k] = len(ids)
    if t in (list, tuple):
        return (t.__name__,) + tuple(_canon_val(x, ids) for x in v)
    if t is dict:
        return ("dict",) + tuple((_canon_val(a, ids), _canon_val(b, ids)) for a, b in v.items())
    if t in (set, frozenset):
        return (t.__name__,) + tuple(sorted((repr(_canon_val(x, ids)) for x in v)))
    if isinstance(v, refvm.GStub):
        return v.canon_callee()
    if isinstance(v, refvm.IStub):
        return ("I", v.created, tuple(_canon_val(s, ids) for s in v.states),
                tuple((_canon_val(a, ids), _canon_val(b, ids)) for a, b in v.items))
    return ("?", t.__name__)


def canon_R(vm):
    ids = {}
    return (
        tuple(_canon_val(x, ids) for x in vm.flat()),
        tuple((k, _canon_val(v, ids)) for k, v in sorted(vm.memo.items())),
        len(vm.world.log),
    )


def _canon_ast(node, ids):
    if isinstance(node, ast.AST):
        if isinstance(node, (ast.List, ast.Set, ast.Dict)):
            k = id(node)
            if k in ids:
                return ("ref", ids[k])
            ids[k] = len(ids)
        return (type(node).__name__,) + tuple(_canon_ast(getattr(node, f, None), ids) for f in node._fields)
    if isinstance(node, (list, tuple)):
        return tuple(_canon_ast(x, ids) for x in node)
    if node is None or isinstance(node, (str, int, float, bytes, bool)):
        return repr(node)
    return ("opaque", type(node).__name__)


def canon_F(interp, fk):
    ids = {}
    return (
        tuple("MARK" if isinstance(x, fk.MarkObject) else _canon_ast(x, ids) for x in interp.stack),
        tuple((k, _canon_ast(v, ids)) for k, v in sorted(interp.memory.items(), key=lambda kv: repr(kv[0]))),
        tuple(_canon_ast(s, ids) for s in interp.module_body),
        getattr(interp, "_var_counter", None),
    )


def _dg(x):
    return hashlib.blake2b(repr(x).encode("utf-8", "backslashreplace"), digest_size=8).digest()


# ---------------------------------------------------------------------------------------------
# configuration
# ---------------------------------------------------------------------------------------------


class Config:
    def __init__(self, prop, alphabet, depth, step_oracles=(), term_oracles=(), split=2, opts=None,
                 want_states=True):
        self.prop = prop
        self.alphabet = list(alphabet)
        self.depth = depth
        self.step_oracles = list(step_oracles)
        self.term_oracles = list(term_oracles)
        self.split = min(split, depth)
        self.opts = opts or {}
        self.want_states = want_states

    def data(self, seq):
        return b"".join(self.alphabet[i].data for i in seq)

    def labels(self, seq):
        return [self.alphabet[i].label for i in seq]


class Stats(dict):
    def inc(self, k, n=1):
        self[k] = self.get(k, 0) + n

    def merge(self, other):
        for k, v in other.items():
            self[k] = self.get(k, 0) + v


class Out:
    """What one exploration task returns."""

    def __init__(self):
        self.stats = Stats()
        self.viol = {}  # sig -> [ (prop, sig, desc, replay, size) ... ] capped
        self.vcount = {}
        self.states = set()
        self.frontier = []
        self.outcomes = set()
        self.samples = []
        self.table = {}  # uncapped key -> value channel (e.g. per-program digests)

    def violate(self, prop, sig, desc, replay, size):
        self.vcount[sig] = self.vcount.get(sig, 0) + 1
        lst = self.viol.setdefault(sig, [])
        lst.append((prop, sig, desc, replay, size))
        lst.sort(key=lambda t: (t[4], repr(t[3])))
        del lst[3:]

    def merge(self, o):
        self.stats.merge(o.stats)
        for sig, lst in o.viol.items():
            cur = self.viol.setdefault(sig, [])
            cur.extend(lst)
            cur.sort(key=lambda t: (t[4], repr(t[3])))
            del cur[3:]
        for sig, c in o.vcount.items():
            self.vcount[sig] = self.vcount.get(sig, 0) + c
        self.states |= o.states
        self.table.update(o.table)
        self.outcomes |= o.outcomes
        if len(self.outcomes) > 5000:
            self.outcomes = set(list(self.outcomes)[:5000])
        for s in o.samples:
            if len(self.samples) < 8:
                self.samples.append(s)


# ---------------------------------------------------------------------------------------------
# executing one program on both machines
# ---------------------------------------------------------------------------------------------


def vm_run_symbols(cfg, seq):
    """Run the reference VM over seq. Returns (vm, None) or (None, reason) where reason in
    {'typing', 'vm'}; guards are evaluated just before each symbol."""
    data = cfg.data(seq)
    vm = refvm.RefVM(data)
    try:
        for i in seq:
            sym = cfg.alphabet[i]
            if sym.guard is not None and not refvm.guard_ok(vm, sym.guard):
                return None, "typing"
            for _ in range(sym.nops):
                vm.step()
    except Exception:  # noqa: BLE001 - the VM rejecting a program disables the transition
        return None, "vm"
    return vm, None


class Term:
    """Lazy views of one terminal program, shared by the terminal oracles."""

    def __init__(self, cfg, seq, data, vm_prefix=None):
        self.cfg = cfg
        self.seq = seq
        self.data = data  # full program incl. STOP
        self._cache = {}

    def lazy(self, key, fn):
        if key not in self._cache:
            try:
                self._cache[key] = (True, fn())
            except RecursionError as e:
                self._cache[key] = (False, e)
            except Exception as e:  # noqa: BLE001
                self._cache[key] = (False, e)
        return self._cache[key]

    # reference side
    @property
    def vm(self):
        def f():
            vm = refvm.RefVM(self.data)
            vm.run()
            return vm

        return self.lazy("vm", f)

    # fickling side
    @property
    def pickled(self):
        return self.lazy("pickled", lambda: _fk().Pickled.load(self.data))

    @property
    def tree(self):
        ok, p = self.pickled
        if not ok:
            return ok, p
        return self.lazy("ast", lambda: p.ast)

    @property
    def src(self):
        ok, t = self.tree
        if not ok:
            return ok, t
        return self.lazy("src", lambda: ast.unparse(t))

    @property
    def stub_exec(self):
        ok, s = self.src
        if not ok:
            return ok, s
        from .stubworld import run_source

        return self.lazy("exec", lambda: run_source(s))

    def replay(self):
        return {"engine": "E1", "program": self.cfg.labels(self.seq) + ["STOP"], "bytes": self.data}


def explore(cfg: Config, root, max_depth, collect_frontier_at=None):
    """DFS over all extensions of root (a tuple of symbol indices) up to max_depth symbols."""
    fk = _fk()
    out = Out()
    st = out.stats
    nsym = len(cfg.alphabet)
    # the root itself must be an enabled, fickling-accepted prefix, else nothing below it exists
    if root:
        vm, why = vm_run_symbols(cfg, root)
        if vm is None:
            return out
        if not _f_accepts(cfg, fk, root):
            return out
    todo = [tuple(root)]
    while todo:
        prefix = todo.pop()
        for a in range(nsym):
            seq = prefix + (a,)
            vm, why = vm_run_symbols(cfg, seq)
            if vm is None:
                st.inc("disabled_" + why)
                continue
            st.inc("transitions")
            data = cfg.data(seq)
            nops = sum(cfg.alphabet[i].nops for i in seq)
            # fickling on the same prefix, through the real parser
            try:
                with limit(60):
                    p = fk.Pickled.load(data + b".")
                    interp = fk.Interpreter(p)
                    if len(p) != nops + 1:
                        raise AssertionError(f"parser produced {len(p)} opcodes for {nops + 1}")
                    for _ in range(nops):
                        interp.step()
                f_ok = True
            except RecursionError:
                f_ok = False
            except Timeout as e:
                f_ok = False
                _unexpected(cfg, out, e, cfg.labels(seq), data, len(seq))
            except Exception as e:  # noqa: BLE001
                f_ok = False
                out.outcomes.add(("refused", type(e).__name__))
            if not f_ok:
                st.inc("refused_by_fickling")
                continue
            if cfg.want_states:
                try:
                    out.states.add(_dg((canon_R(vm), canon_F(interp, fk))))
                except RecursionError:
                    st.inc("state_key_recursion")
            broken = False
            for orc in cfg.step_oracles:
                try:
                    with limit(60):
                        if orc(cfg, seq, data, vm, interp, p, out):
                            broken = True
                except (Exception, Timeout) as e:  # noqa: BLE001 - unexpected behaviour of the code under test, not a harness crash
                    _unexpected(cfg, out, e, cfg.labels(seq), data, len(seq))
            if broken:
                # the two machines have diverged; every extension only restates this divergence
                st.inc("pruned_after_step_violation")
                continue
            if vm.stack:
                st.inc("terminal_programs")
                term = Term(cfg, seq, data + b".")
                for orc in cfg.term_oracles:
                    try:
                        with limit(120):
                            orc(term, out)
                    except (Exception, Timeout) as e:  # noqa: BLE001
                        _unexpected(cfg, out, e, cfg.labels(seq) + ["STOP"], data + b".", len(seq))
                if len(out.samples) < 2 and len(seq) >= 3:
                    out.samples.append({"program": cfg.labels(seq) + ["STOP"], "bytes_hex": (data + b".").hex()})
            if len(seq) < max_depth:
                todo.append(seq)
            elif collect_frontier_at == len(seq):
                out.frontier.append(seq)
    return out


def _unexpected(cfg, out, e, labels, data, size):
    import traceback

    tb = traceback.extract_tb(e.__traceback__)
    where = next((f"{os.path.basename(fr.filename)}:{fr.name}" for fr in reversed(tb) if "/fickling/" in fr.filename), "harness")
    out.violate(cfg.prop, f"{cfg.prop}|unexpected-exception|{type(e).__name__}|{where}",
                f"{type(e).__name__}: {e} at {where} on program {' '.join(labels)}", {"engine": "E1", "program": labels, "bytes": data}, size)


def _f_accepts(cfg, fk, seq):
    data = cfg.data(seq)
    nops = sum(cfg.alphabet[i].nops for i in seq)
    try:
        p = fk.Pickled.load(data + b".")
        interp = fk.Interpreter(p)
        for _ in range(nops):
            interp.step()
        return True
    except RecursionError:
        return False
    except Exception:  # noqa: BLE001
        return False


_CFG = None


def _task(root):
    return explore(_CFG, root, _CFG.depth)


def run(cfg, report=None, time_cap=None):
    """Explore in parallel (workers are forked and inherit cfg)."""
    global _CFG
    t0 = time.time()
    sys.setrecursionlimit(3000)
    _CFG = cfg
    total = Out()
    # levels 1..split in the parent
    first = explore(cfg, (), cfg.split, collect_frontier_at=cfg.split if cfg.depth > cfg.split else None)
    total.merge(first)
    roots = first.frontier
    capped = False
    if roots:
        # seed rotates dispatch order only
        s = seed() % max(1, len(roots))
        roots = roots[s:] + roots[:s]
        from . import par

        done = 0
        for o in par.pmap_unordered(_task, roots, chunksize=1):
            if isinstance(o, par.WorkerDied):
                d = Out()
                d.violate(cfg.prop, f"{cfg.prop}|worker-process-died", f"{o.why} while exploring the subtree below {cfg.labels(o.item)}",
                          {"engine": "E1", "program": cfg.labels(o.item), "bytes": cfg.data(o.item)}, len(o.item))
                o = d
            total.merge(o)
            done += 1
            if time_cap and time.time() - t0 > time_cap:
                capped = True
                break
        if capped:
            total.stats["subtrees_done"] = done
            total.stats["subtrees_total"] = len(roots)
    if report is not None:
        fill_report(report, cfg, total, capped)
    return total, capped


def fill_report(report, cfg, total, capped):
    st = total.stats
    report.set("alphabet", [s.label for s in cfg.alphabet])
    report.set("alphabet_size", len(cfg.alphabet))
    report.set("depth_bound_symbols", cfg.depth)
    report.set("states", len(total.states))
    report.set("transitions", st.get("transitions", 0))
    for k, v in sorted(st.items()):
        if k != "transitions":
            report.set(k, v)
    report.set("traces_validated_against_impl", st.get("transitions", 0))
    report.set("evaluations", st.get("transitions", 0) + st.get("terminal_programs", 0))
    report.set("distinct_nontrivial", len(total.states))
    report.set("distinct_terminal_outcomes", len(total.outcomes))
    report.set(
        "rule",
        "every sequence over the listed alphabet up to depth_bound_symbols symbols, executed on CPython's "
        "pure-Python unpickler (inert stubs) and on fickling's parser+Interpreter; distinct = distinct "
        "canonical joint (VM, Interpreter) state after the prefix; every enabled transition is executed on "
        "the real implementation (nothing pruned)",
    )
    report.set("capped", bool(capped))
    for s in total.samples:
        report.sample(s)
    for sig, lst in total.viol.items():
        report.merge_violations(lst)
        report.vcount[sig] = total.vcount[sig]


def capture_stdout(fn):
    buf = io.StringIO()
    with redirect_stdout(buf):
        r = fn()
    return r, buf.getvalue()


def replay_terminal(prop, path, oracles, step_oracles=()):
    """Re-execute the recorded program of a replay file through the given terminal oracles, without the explorer.
    Prints what the oracles report; returns 1 if the violation reproduces, 0 otherwise."""
    import json

    case = json.load(open(path))["case"]
    data = bytes.fromhex(case["bytes"]["hex"])
    if case.get("kind") == "step":
        data = data + b"."

    class _C:
        def __init__(self):
            self.prop = prop
            self.opts = {"seqlen": 3, "fine": True}

        def labels(self, seq):
            return list(seq)

    out = Out()
    term = Term(_C(), tuple(case.get("program") or ["replay"]), data)
    print("program:", " ".join(case.get("program") or []) or case.get("tag") or "(bytes)")
    try:
        import pickletools

        pickletools.dis(data if len(data) < 300 else data[:300])
    except Exception as e:  # noqa: BLE001
        print("(not disassemblable:", e, ")")
    ok, src = term.src
    print("decompiled:\n" + (src if ok else f"  <refused: {type(src).__name__}: {src}>"))
    for orc in oracles:
        orc(term, out)
    for sig, lst in out.viol.items():
        print("REPRODUCED", sig, "::", lst[0][2][:500])
    if not out.viol:
        print("not reproduced on this tree")
    return 1 if out.viol else 0
