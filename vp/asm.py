"""Typed pickle assembler, independent of fickling's own encode() (C15 tests that one)."""
import pickletools
import struct

CODE = {op.name: op.code.encode("latin-1") for op in pickletools.opcodes}


def _line(s):
    if isinstance(s, str):
        s = s.encode("utf-8")
    return s + b"\n"


def enc(name, arg=None):
    """Encode one opcode from (name, arg)."""
    c = CODE[name]
    if name in (
        "MARK STOP POP POP_MARK DUP NONE NEWTRUE NEWFALSE EMPTY_LIST EMPTY_TUPLE EMPTY_DICT "
        "EMPTY_SET APPEND APPENDS LIST TUPLE TUPLE1 TUPLE2 TUPLE3 DICT SETITEM SETITEMS ADDITEMS "
        "FROZENSET REDUCE BUILD OBJ NEWOBJ NEWOBJ_EX STACK_GLOBAL BINPERSID MEMOIZE NEXT_BUFFER "
        "READONLY_BUFFER"
    ).split():
        assert arg is None, (name, arg)
        return c
    if name == "PROTO":
        return c + bytes([arg])
    if name == "FRAME":
        return c + struct.pack("<Q", arg)
    if name in ("BININT1", "BINPUT", "BINGET", "EXT1"):
        return c + bytes([arg])
    if name in ("BININT2", "EXT2"):
        return c + struct.pack("<H", arg)
    if name in ("BININT", "EXT4"):
        return c + struct.pack("<i", arg)
    if name in ("LONG_BINPUT", "LONG_BINGET"):
        return c + struct.pack("<I", arg)
    if name == "INT":
        if arg is True:
            return c + b"01\n"
        if arg is False:
            return c + b"00\n"
        return c + _line(str(arg))
    if name == "LONG":
        return c + _line(f"{arg}L")
    if name in ("LONG1", "LONG4"):
        from pickle import encode_long

        b = encode_long(arg)
        return c + (bytes([len(b)]) if name == "LONG1" else struct.pack("<i", len(b))) + b
    if name == "FLOAT":
        return c + _line(repr(arg))
    if name == "BINFLOAT":
        return c + struct.pack(">d", arg)
    if name in ("PUT", "GET"):
        return c + _line(str(arg))
    if name == "STRING":
        return c + _line(repr(arg))  # arg: str (latin-1 safe) or bytes repr'd without the b
    if name == "UNICODE":
        return c + _line(arg.replace("\\", "\\u005c").replace("\0", "\\u0000").replace("\n", "\\u000a")
                         .replace("\r", "\\u000d").replace("\x1a", "\\u001a").encode("raw-unicode-escape"))
    if name in ("SHORT_BINUNICODE", "BINUNICODE", "BINUNICODE8"):
        b = arg.encode("utf-8", "surrogatepass")
        fmt = {"SHORT_BINUNICODE": "<B", "BINUNICODE": "<I", "BINUNICODE8": "<Q"}[name]
        return c + struct.pack(fmt, len(b)) + b
    if name in ("SHORT_BINBYTES", "BINBYTES", "BINBYTES8", "BYTEARRAY8", "SHORT_BINSTRING", "BINSTRING"):
        b = bytes(arg)
        fmt = {
            "SHORT_BINBYTES": "<B",
            "BINBYTES": "<I",
            "BINBYTES8": "<Q",
            "BYTEARRAY8": "<Q",
            "SHORT_BINSTRING": "<B",
            "BINSTRING": "<i",
        }[name]
        return c + struct.pack(fmt, len(b)) + b
    if name in ("GLOBAL", "INST"):
        m, n = arg
        return c + _line(m) + _line(n)
    if name == "PERSID":
        return c + _line(arg)
    raise KeyError(name)


def asm(*items):
    """asm('NONE', ('BININT1', 3), b'raw', ...) -> bytes"""
    out = bytearray()
    for it in items:
        if isinstance(it, (bytes, bytearray)):
            out += it
        elif isinstance(it, str):
            out += enc(it)
        else:
            out += enc(*it)
    return bytes(out)


def disasm(data):
    """List of (name, arg, pos) up to and including the first STOP; raises on malformed."""
    return [(i.name, a, p) for i, a, p in pickletools.genops(data)]


def first_pickle_len(data):
    """Length of the first complete pickle in data according to pickletools."""
    for info, _arg, pos in pickletools.genops(data):
        if info.name == "STOP":
            return pos + 1
    raise ValueError("no STOP")


def split_stack(data):
    out = []
    i = 0
    while i < len(data):
        n = first_pickle_len(data[i:])
        out.append(data[i : i + n])
        i += n
    return out


def strip_frames(data):
    """Remove FRAME opcodes (keeps PROTO); the result is what a framing-unaware pickler writes."""
    out = bytearray()
    ops = list(pickletools.genops(data))
    for k, (info, _arg, pos) in enumerate(ops):
        end = ops[k + 1][2] if k + 1 < len(ops) else len(data)
        if info.name == "FRAME":
            continue
        out += data[pos:end]
    return bytes(out)


# ---------------------------------------------------------------------------------------------
# Symbols: the typed alphabet of the E1 explorer.  A symbol is (label, bytes, guard) where guard
# names a typing precondition on the reference VM's state (see refvm.guard_ok).
# ---------------------------------------------------------------------------------------------


class Sym:
    __slots__ = ("label", "data", "guard", "nops")

    def __init__(self, label, data, guard=None):
        self.label = label
        self.data = data
        self.guard = guard
        self.nops = len(list(pickletools.genops(data + b".")) ) - 1 if data else 0

    def __repr__(self):
        return self.label


def S(label, *items, guard=None):
    return Sym(label, asm(*items), guard)


def sbu(s):
    return ("SHORT_BINUNICODE", s)


def G(m, n):
    return S(f"GLOBAL({m},{n})", ("GLOBAL", (m, n)))


def SG(m, n):
    return S(f"STACK_GLOBAL({m},{n})", sbu(m), sbu(n), "STACK_GLOBAL")


def INST(m, n):
    return S(f"INST({m},{n})", ("INST", (m, n)))


BASE = {
    "NONE": S("NONE", "NONE"),
    "TRUE": S("NEWTRUE", "NEWTRUE"),
    "FALSE": S("NEWFALSE", "NEWFALSE"),
    "K1": S("BININT1(1)", ("BININT1", 1)),
    "K2": S("BININT1(2)", ("BININT1", 2)),
    "K3": S("BININT1(3)", ("BININT1", 3)),
    "STR": S("SBU('a')", sbu("a")),
    "STRB": S("SBU('b')", sbu("b")),
    "STRX": S("SBU('x=1')", sbu("x=1")),
    "BYTES": S("SBB(b'z')", ("SHORT_BINBYTES", b"z")),
    "ELIST": S("EMPTY_LIST", "EMPTY_LIST"),
    "EDICT": S("EMPTY_DICT", "EMPTY_DICT"),
    "ESET": S("EMPTY_SET", "EMPTY_SET"),
    "ETUP": S("EMPTY_TUPLE", "EMPTY_TUPLE"),
    "MARK": S("MARK", "MARK"),
    "TUPLE": S("TUPLE", "TUPLE"),
    "T1": S("TUPLE1", "TUPLE1"),
    "T2": S("TUPLE2", "TUPLE2"),
    "T3": S("TUPLE3", "TUPLE3"),
    "LIST": S("LIST", "LIST"),
    "DICT": S("DICT", "DICT"),
    "FROZENSET": S("FROZENSET", "FROZENSET"),
    "APPEND": S("APPEND", "APPEND", guard="append"),
    "APPENDS": S("APPENDS", "APPENDS", guard="appends"),
    "SETITEM": S("SETITEM", "SETITEM", guard="setitem"),
    "SETITEMS": S("SETITEMS", "SETITEMS", guard="setitems"),
    "ADDITEMS": S("ADDITEMS", "ADDITEMS", guard="additems"),
    "POP": S("POP", "POP"),
    "POP_MARK": S("POP_MARK", "POP_MARK"),
    "DUP": S("DUP", "DUP"),
    "MEMOIZE": S("MEMOIZE", "MEMOIZE"),
    "BINPUT1": S("BINPUT(1)", ("BINPUT", 1)),
    "BINPUT0": S("BINPUT(0)", ("BINPUT", 0)),
    "BINGET0": S("BINGET(0)", ("BINGET", 0)),
    "BINGET1": S("BINGET(1)", ("BINGET", 1)),
    "PUT5": S("PUT(5)", ("PUT", 5)),
    "GET5": S("GET(5)", ("GET", 5)),
    "LBPUT": S("LONG_BINPUT(70000)", ("LONG_BINPUT", 70000)),
    "LBGET": S("LONG_BINGET(70000)", ("LONG_BINGET", 70000)),
    "REDUCE": S("REDUCE", "REDUCE"),
    "OBJ": S("OBJ", "OBJ"),
    "NEWOBJ": S("NEWOBJ", "NEWOBJ"),
    "NEWOBJ_EX": S("NEWOBJ_EX", "NEWOBJ_EX"),
    "BUILD": S("BUILD", "BUILD", guard="build"),
    "BINPERSID": S("BINPERSID", "BINPERSID"),
    "STACK_GLOBAL": S("STACK_GLOBAL", "STACK_GLOBAL"),
    "PROTO2": S("PROTO(2)", ("PROTO", 2)),
    "PROTO4": S("PROTO(4)", ("PROTO", 4)),
}


def alphabet(names, extra=()):
    return [BASE[n] for n in names] + list(extra)


# ---------------------------------------------------------------------------------------------
# one symbol per pickletools opcode class (representative argument) for the full-class pass
# ---------------------------------------------------------------------------------------------

EXT_CODE = 1


def register_ext():
    """EXT1/2/4 need a copyreg entry for the reference VM to accept them."""
    import copyreg

    if (("vp_ext", "E") not in copyreg._extension_registry):
        copyreg.add_extension("vp_ext", "E", EXT_CODE)


def fullclass_symbols():
    reps = [
        ("INT", 7), ("BININT", 70000), ("BININT1", 9), ("BININT2", 300), ("LONG", 9), ("LONG1", 2**70), ("LONG4", -5),
        ("STRING", "ab"), ("BINSTRING", b"ab"), ("SHORT_BINSTRING", b"ab"), ("BINBYTES", b"yz"),
        ("SHORT_BINBYTES", b"yz"), ("BINBYTES8", b"yz"), ("BYTEARRAY8", b"yz"), "NEXT_BUFFER", "READONLY_BUFFER",
        "NONE", "NEWTRUE", "NEWFALSE", ("UNICODE", "u"), ("SHORT_BINUNICODE", "s"), ("BINUNICODE", "t"),
        ("BINUNICODE8", "v"), ("FLOAT", 1.5), ("BINFLOAT", 2.5), "EMPTY_LIST", "APPEND", "APPENDS", "LIST",
        "EMPTY_TUPLE", "TUPLE", "TUPLE1", "TUPLE2", "TUPLE3", "EMPTY_DICT", "DICT", "SETITEM", "SETITEMS",
        "EMPTY_SET", "ADDITEMS", "FROZENSET", "POP", "DUP", "MARK", "POP_MARK", ("GET", 0), ("BINGET", 0),
        ("LONG_BINGET", 0), ("PUT", 0), ("BINPUT", 0), ("LONG_BINPUT", 0), "MEMOIZE", ("EXT1", EXT_CODE),
        ("EXT2", EXT_CODE), ("EXT4", EXT_CODE), ("GLOBAL", ("m", "C")), "STACK_GLOBAL", "REDUCE", "BUILD",
        ("INST", ("m", "C")), "OBJ", "NEWOBJ", "NEWOBJ_EX", ("PROTO", 3), ("PERSID", "pid"), "BINPERSID",
    ]
    guards = {"APPEND": "append", "APPENDS": "appends", "SETITEM": "setitem", "SETITEMS": "setitems",
              "ADDITEMS": "additems", "BUILD": "build"}
    out = []
    for r in reps:
        name = r if isinstance(r, str) else r[0]
        label = name if isinstance(r, str) else f"{name}({r[1]!r})"
        out.append(Sym(label, enc(name) if isinstance(r, str) else enc(*r), guards.get(name)))
    names = {s.label.split("(")[0] for s in out} | {"STOP", "FRAME"}
    missing = set(CODE) - names
    assert not missing, missing
    return out
