"""Labelled global vocabulary (labels fixed here, never taken from fickling)."""
BUILTIN_EXEC = ("eval", "exec", "compile", "open")

# module -> label
MODULE_LABEL = {
    "builtins": "builtin", "__builtin__": "builtin",
    "os": "dangerous", "posix": "dangerous", "nt": "dangerous", "subprocess": "dangerous", "sys": "dangerous",
    "socket": "dangerous", "shutil": "dangerous", "urllib": "dangerous", "urllib.request": "dangerous",
    "torch.hub": "dangerous", "dill": "dangerous", "code": "dangerous", "os.path": "dangerous",
    "dill._dill": "dangerous", "urllib.parse": "dangerous",
    "collections": "benign", "copy": "benign", "importlib": "benign", "json": "benign", "re": "benign", "typing": "benign",
    "shlex": "benign", "gzip": "benign", "io": "benign", "_io": "benign", "_codecs": "benign", "copyreg": "benign",
    "codecs": "benign", "operator": "benign", "functools": "benign", "datetime": "benign", "pickle": "benign", "runpy": "benign",
    "commands": "nonstd", "popen2": "nonstd", "Queue": "nonstd",  # standard library of Python 2.7 only
    "vp_sink": "nonstd", "numpy": "nonstd", "torch.storage": "nonstd", "torch": "nonstd", "vp_objs": "nonstd",
    "numpy.testing._private.utils": "nonstd", "m": "nonstd", "transformers": "nonstd",
}

RANK = {"LIKELY_SAFE": 0, "POSSIBLY_UNSAFE": 1, "SUSPICIOUS": 2, "LIKELY_UNSAFE": 3, "LIKELY_OVERTLY_MALICIOUS": 4,
        "OVERTLY_MALICIOUS": 5}
NAME = {v: k for k, v in RANK.items()}

VOCAB = [
    ("builtins", "eval"), ("__builtin__", "exec"), ("builtins", "compile"), ("builtins", "open"),
    ("builtins", "getattr"), ("__builtin__", "__import__"), ("builtins", "print"), ("builtins", "bytearray"),
    ("os", "system"), ("posix", "system"), ("nt", "system"), ("subprocess", "Popen"), ("sys", "exit"),
    ("socket", "create_connection"), ("shutil", "rmtree"), ("urllib", "request"), ("urllib.request", "urlopen"),
    ("torch.hub", "load"), ("dill", "loads"), ("code", "interact"), ("os.path", "join"), ("dill._dill", "_load_type"),
    ("collections", "OrderedDict"), ("io", "BytesIO"), ("_codecs", "encode"), ("copyreg", "_reconstructor"),
    ("commands", "getoutput"), ("popen2", "popen2"),
    ("vp_sink", "hit"), ("numpy", "dtype"), ("torch.storage", "_load_from_bytes"),
    # a dotted (protocol 4) name: the callee is reached by attribute traversal through a benign module
    ("codecs", "builtins.len"), ("collections", "abc.sys.exit"),
    # a builtin reached by a dotted qualified name whose last component is one of the attribute names fickling's own
    # output uses for state application (update / __setstate__)
    ("builtins", "dict.update"), ("builtins", "set.update"), ("builtins", "BaseException.__setstate__"),
]


def label(module):
    # modules outside the labelled vocabulary (deviation variants can name anything) carry no floor
    return MODULE_LABEL.get(module, "unlabelled")


def floor_of(world):
    """(rank, reasons) demanded by C04 for what the reference VM did."""
    from .refvm import GStub, IStub

    f = 0
    why = []
    for ev in world.log:
        if ev[0] == "import":
            lab = label(ev[1])
            if lab == "nonstd":
                f = max(f, 3)
                why.append(f"resolves non-stdlib {ev[1]}.{ev[2]} (>=LIKELY_UNSAFE)")
            elif lab == "dangerous":
                f = max(f, 4)
                why.append(f"resolves dangerous {ev[1]}.{ev[2]} (>=LIKELY_OVERTLY_MALICIOUS)")
        elif ev[0] == "call":
            callee = ev[1].callee
            if isinstance(callee, GStub):
                lab = label(callee.module)
                if lab == "builtin":
                    if callee.name in BUILTIN_EXEC:
                        f = max(f, 5)
                        why.append(f"calls builtin {callee.name} (OVERTLY_MALICIOUS)")
                    else:
                        f = max(f, 3)
                        why.append(f"calls builtin {callee.name} (>=LIKELY_UNSAFE)")
                elif lab == "nonstd":
                    f = max(f, 3)
                    why.append(f"calls non-stdlib {callee.module}.{callee.name} (>=LIKELY_UNSAFE)")
                elif "." in callee.name:
                    f = max(f, 3)
                    why.append(f"calls {callee.module}.{callee.name}, a callee computed by attribute traversal (>=LIKELY_UNSAFE)")
            elif isinstance(callee, IStub):
                f = max(f, 3)
                why.append("calls a computed callee (>=LIKELY_UNSAFE)")
    return f, why


# real standard-library modules that export the same attribute name as a vocabulary entry (for shadowing programs)
SHADOW = {"__import__": "importlib", "open": "gzip", "copy": "copy", "load": "json", "loads": "json", "join": "shlex",
          "compile": "re", "OrderedDict": "typing"}
