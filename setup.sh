#!/bin/bash
# Offline setup: nothing to build (pure Python harness). Verifies the interpreter and the repo import.
set -e
cd "$(dirname "$0")"
/venv/bin/python -c "import sys; sys.path.insert(0,'/repo'); import fickling, pickletools; print('fickling', fickling.__version__, 'from', fickling.__file__)"
mkdir -p evidence replays
