"""Fixture classes for the object grammar. Never imported by fickling itself."""
import collections


class Plain:
    def __init__(self, **kw):
        self.__dict__.update(kw)

    def __eq__(self, o):
        return type(o) is type(self) and o.__dict__ == self.__dict__

    __hash__ = object.__hash__


class Slotted:
    __slots__ = ("a", "b")

    def __init__(self, a=None, b=None):
        self.a = a
        self.b = b

    def __eq__(self, o):
        return type(o) is type(self) and (o.a, o.b) == (self.a, self.b)

    __hash__ = object.__hash__


class Both(Slotted):
    def __init__(self, a=None, b=None, c=None):
        super().__init__(a, b)
        self.c = c


class NewArgs:
    def __new__(cls, x, y=0):
        o = super().__new__(cls)
        o.x, o.y = x, y
        return o

    def __getnewargs__(self):
        return (self.x, self.y)

    def __eq__(self, o):
        return type(o) is type(self) and o.__dict__ == self.__dict__

    __hash__ = object.__hash__


class NewArgsEx:
    def __new__(cls, x, *, k=0):
        o = super().__new__(cls)
        o.x, o.k = x, k
        return o

    def __getnewargs_ex__(self):
        return (self.x,), {"k": self.k}

    def __eq__(self, o):
        return type(o) is type(self) and o.__dict__ == self.__dict__

    __hash__ = object.__hash__


class NewArgsExOD(NewArgsEx):
    """keyword arguments delivered as an OrderedDict: pickled as REDUCE + SETITEM, i.e. not a dict literal"""

    def __getnewargs_ex__(self):
        return (self.x,), collections.OrderedDict(k=self.k)


def make(*args):
    return Reduced(*args)


class Reduced:
    def __init__(self, *args):
        self.args = args
        self.state = None
        self.items = []

    def __reduce__(self):
        return (make, self.args)

    def __eq__(self, o):
        return type(o) is type(self) and (o.args, o.state) == (self.args, self.state)

    __hash__ = object.__hash__


class ReducedState(Reduced):
    def __reduce__(self):
        return (make, self.args, {"s": 1})

    def __setstate__(self, st):
        self.state = st


class Outer:
    class Inner:
        def __init__(self, v=0):
            self.v = v

        def __eq__(self, o):
            return type(o) is type(self) and o.v == self.v

        __hash__ = object.__hash__


class CustomState:
    def __init__(self, v):
        self.v = v

    def __getstate__(self):
        return ("custom", self.v)

    def __setstate__(self, st):
        self.v = st[1]

    def __eq__(self, o):
        return type(o) is type(self) and o.v == self.v

    __hash__ = object.__hash__


Point = collections.namedtuple("Point", "x y")


class Noted:
    """Unpickling an instance calls vp_sink.note(i): an observable effect of the *original* pickle."""

    def __init__(self, i):
        self.i = i

    def __reduce__(self):
        import vp_sink

        return (vp_sink.note, (self.i,))
