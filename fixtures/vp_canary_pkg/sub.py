import os

_m = os.environ.get("VP_CANARY_MARKER")
if _m:
    with open(_m, "a") as f:
        f.write("vp_canary_pkg.sub imported\n")


def boom(*a):
    return "boom"
