"""A module that is already imported when analysis runs; any attribute lookup on it for an undefined name is recorded.
Analysis must never resolve names the input mentions, not even on modules that happen to be loaded."""
LOG = []


def __getattr__(name):
    if name.startswith("__"):
        raise AttributeError(name)
    LOG.append(name)
    raise AttributeError(name)
