"""Harmless sink: a non-standard-library callable whose calls are observable."""
LOG = []


def hit(*args, **kwargs):
    LOG.append(("hit", args, kwargs))
    return ("sink-result", args)


def note(*args):
    LOG.append(("note", args, {}))
    return ("note-result", args)


def other(*args):
    LOG.append(("other", args, {}))
    return None


def reset():
    del LOG[:]
