"""Canary: must never be imported by any analysis. Importing it leaves a marker."""
import os

_m = os.environ.get("VP_CANARY_MARKER")
if _m:
    with open(_m, "a") as f:
        f.write("vp_canary_mod imported\n")
IMPORTED = True


def boom(*a):
    return "boom"
