#!/usr/bin/env python3
"""Regenerates /verif/MANIFEST.json from the table below (run after adding a check)."""
import json
import os

HERE = os.path.dirname(os.path.dirname(os.path.abspath(__file__)))

E1 = "bounded-exhaustive explicit-state exploration of opcode programs: reference pickle VM x fickling interpreter product (hand-written explorer, every transition executed on the real code)"
E2 = "explicit-state BFS over operation histories of the real API against a small reference model, states merged on (model state, abstract real state)"
E3 = "exhaustive enumeration of a finite configuration product, every point executed on the real code against a reference model"
E3F = "exhaustive enumeration of a finite configuration product plus every fault point of each history (stream / file-system fault injection)"

CHECKS = {
    "C09": dict(
        level="model_checking",
        technique=E1 + "; step invariant after every opcode",
        text="Every opcode sequence over a 37-44 symbol typed alphabet up to depth 4 (quick) / 5 (thorough), a 17-symbol stack-discipline "
        "alphabet two levels deeper, every prefix of every corpus pickle at protocols 0-5 and of every deviation-1 variant (single "
        "opcode deleted / replaced / inserted) of natural pickles, is stepped on CPython's pure-Python unpickler and on fickling's Interpreter; "
        "stack depth, mark positions and memo keys are compared after every opcode, and Trace.run is compared with untraced "
        "decompilation on every terminal program (fresh interpreter, interpreter that already ran, traced twice, interpreter with its own variable "
        "numbering, partially stepped interpreter, opcodes after STOP); protocol-5 pickles with out-of-band buffers are stepped against a reference VM given the buffers. Exhaustive within the bound, which is where stack-effect bugs live (one "
        "opcode x one continuation).",
        ref="§3/C09, §2/E1",
        note="Trusted: CPython's pure-Python unpickler as the reference VM; the typing discipline that disables ill-typed mutator "
        "transitions; bounded alphabet/depth.",
    ),
    "C03": dict(
        level="model_checking",
        technique=E1 + "; terminal oracle: VM import/call event multiset included in the events of the decompiled program run against the same stubs",
        text="Every program over a 29-symbol exec alphabet (3 resolving x 6 call-making opcodes, POP/POP_MARK/DUP/memo traffic) to depth 4/5, "
        "a 15-symbol core one level deeper, an argument-order / same-named-globals alphabet (OBJ, INST, REDUCE over two modules exporting the same name) one level deeper, every opcode class of pickletools in every position of length<=3 programs, and the object "
        "corpus at protocols 0-5 plus all deviation-1 variants of it: the reference VM's import, call and BUILD/__setstate__ events "
        "(callee + argument snapshot at call time) must be a sub-multiset of those of the decompiled source executed under the same stubs, "
        "and a real call may not be rendered through __new__; the resolve-form x call-form x disposal x prefix product of C04 (memo layouts, "
        "same-named globals) goes through the same oracle. The failure mode is an interaction of two "
        "opcodes (call-maker x disposer), i.e. exactly what exhaustive short sequences cover.",
        ref="§3/C03, §2/E1",
        note="Trusted: pure-Python unpickler as reference; stub world (NEWOBJ rendered as a call, frozenset transparent); bounded alphabet/depth.",
    ),
    "C04": dict(
        level="model_checking",
        technique=E1 + "; terminal oracle: severity >= floor computed from the reference VM's event log and generator-fixed labels; plus an exhaustive template product",
        text="Ground truth (what would be resolved / called) comes from executing each program on the reference VM with inert stubs and from "
        "labels fixed in vp/vocab.py, never from fickling. Explored: all programs over core+labelled-global alphabets to depth 4/5 (2-3 "
        "vocabulary groups incl. same-named benign/dangerous pairs), deviation-1 variants of natural object pickles, and the full "
        "product vocabulary(36, incl. dotted protocol-4 callees reached through a benign module and dotted builtin method names) x resolve form(8, incl. sparse/overwriting memo layouts) x call form(8) x disposal(11) x prefix(6).",
        ref="§3/C04",
        note="Trusted: the label table; the floor table transcribed from the property statement; one-directional comparison.",
    ),
    "C05": dict(
        level="model_checking",
        technique=E1 + "; terminal oracle: canonical value of exec(decompiled) under stubs == canonical value built by the reference VM; plus plain-data round trip",
        text="All programs over a 27-symbol data alphabet to depth 4 (quick) / 6 (thorough, ~12M transitions), aliasing / object-state / "
        "duplicate-key / memo-layout alphabets two levels deeper, an argument-order / same-named-globals alphabet one level deeper, data+object alphabet, full opcode-class pass, object corpus and its "
        "deviation-1 variants, and ~2-5k plain values x protocols 0-5 x framed/unframed "
        "whose decompiled source must exec to an equal object of the same type.",
        ref="§3/C05",
        note="Trusted: reference VM; canonicalisation (dict/set order-insensitive, floats by repr); cyclic values excluded.",
    ),
    "C13": dict(
        level="model_checking",
        technique=E2 + " (here: every sequence of the six read-only queries of length 3/4 on every E1 terminal program), plus digest tables from child processes under different PYTHONHASHSEED",
        text="For every terminal program of a 34-symbol alphabet to depth 3/4 (a narrow alphabet one deeper, and a macro alphabet that "
        "builds repeated identical calls) and a corpus subset, every history of {unparse, check_safety, trace, summaries, dumps, reparse} of "
        "length 3/4 and every pair of 12 fine-grained queries (incl. a caller's own Interpreter run) is replayed on a fresh parse and every answer compared with a fresh object's first answer; "
        "the same bytes parsed as the second member of a stacked file must give the same answers; the per-program answer digests are recomputed in 3 "
        "processes with different hash seeds, two of which answer an ordered program list (macro programs, equal-but-different constants) in the opposite "
        "order as the first thing in their process.",
        ref="§3/C13",
        note="Trusted: finite set of hash seeds; findings compared as a set.",
    ),
    "C19": dict(
        level="model_checking",
        technique=E1 + "; terminal oracle: check_safety returns well-formed JSON-serialisable findings and the checked loader's error carries the same report; plus an exhaustive module x name x opcode x PROTO product",
        text="All decompilable programs over core + special-cased globals to depth 4/5, a statement-shape alphabet one deeper, the corpus and "
        "its deviation-1 variants, and the product 24 modules x 17 attribute names (every name a rule special-cases) x 2 resolving opcodes x "
        "7 uses x 5 PROTO placements (~28k programs), a second PROTO at every position up to 40; every eighth program also with the JSON report going to a path that already exists; the loader's error report is compared at three thresholds, each fed from a different kind of "
        "stream (in memory, raw non-seekable, buffered non-seekable).",
        ref="§3/C19",
        note="Trusted: pickle.loads replaced by a recorder during fickling.load so nothing generated is really unpickled.",
    ),
    "C11": dict(
        level="model_checking",
        technique=E2 + "; model = (BASE, current additions); every history without state matching to depth 4/5, then with matching deeper",
        text="All histories over activate(A) for 7 addition sets / deactivate / probe (loads of every probe global, refused ones included) / "
        "construct-unpickler(A) up to depth 4 (quick, 70k histories) or 5, "
        "each replayed on the real process from a reset that owns module-level and class-level data; after every step 7 probe globals are loaded through pickle.load, pickle.loads and _pickle.loads and "
        "through a private unpickler instance, and ML_ALLOWLIST (also as seen by the MLAllowlist analysis) is deep-compared with a pristine copy.",
        ref="§3/C11, §2/E2",
        note="Trusted: the two-variable model; probe globals chosen to include a new member of an allow-listed module and new modules.",
    ),
    "C12": dict(
        level="model_checking",
        technique=E2 + "; explicit lifecycle model of the four pickle bindings and a stack of context snapshots",
        text="All histories over {arm, activate(), activate(x), remove, construct, enter, enter-permissive, leave, leave-by-exception, probe load, probe loads, probe load of a pickle the static analysis passes but the allowlist does not list} with up "
        "to 3 open contexts: unmerged to depth 4/6 and merged on (model, classified real bindings, saved bindings of context managers) to depth "
        "6/8. After every step each real binding is classified by identity/closure and compared with the model; probes must not execute a "
        "flagged pickle while the model says the entry point is protected (a context that accepts every verdict carries no expectation while it is the "
        "innermost protection, and must leave nothing behind once exited), and the checked loader must hand the analysed bytes to whatever "
        "pickle.loads is bound to at that moment.",
        ref="§3/C12",
        note="Trusted: the lifecycle model (DESIGN §3/C12); loads under the load-only global check carries no expectation.",
    ),
    "C14": dict(
        level="model_checking",
        technique=E2 + "; state = (opcode encodings, cached AST digest, cached properties digest); oracle = every view equals that of a fresh Pickled(list(p))",
        text="All histories of 62 core operations (insert/delete/replace/slice-assign/append/extend/pop/reverse/+=/remove at first, last and "
        "negative positions, the injection helpers, explicit reads of ast / properties / severity / dumps, a caller's own Interpreter run, helpers that raise half way) to depth 3 (quick) / 4, and of "
        "the full 90-operation menu (NoOp-class and constant-for-constant edits added) one level shallower, from 7/9 base pickles (one with a "
        "70000-byte opcode); every sequence operation is also applied to a plain list of the same opcode objects (reference model); after every step ast, import/call "
        "summaries, verdict and dumps() are compared with a freshly constructed Pickled over the same opcode list, dumps() with the "
        "concatenation of the opcodes' encodings and dump(file) with dumps().",
        ref="§3/C14",
        note="Trusted: a Pickled's state is (_opcodes, _ast, _properties); exceptions compared by type.",
    ),
    "C02": dict(
        level="fault_enumeration",
        technique=E3F + ": inputs x arming paths x stream kinds x thresholds, plus a stream whose content flips after the k-th read/seek/tell call for every k",
        text="25 inputs (one per reachable severity, benign structured values, flagged pickles without any GLOBAL opcode, pickles with several "
        "findings of increasing severity, 11 inputs on which parsing/analysis raises while naming a sink call) x "
        "3 arming paths (each also after a context accepting every verdict was entered and left earlier in the process) x 5 stream kinds "
        "(incl. a BytesIO positioned behind another pickle) x 6 thresholds, each executed on the real loader under a find_class audit monitor and a harmless sink; "
        "then for each arming path every fault point k of an instrumented stream that swaps benign/malicious content of equal length after "
        "its k-th call (both directions). Returned => verdict <= threshold, value and resolutions equal the stock load of the analysed bytes; "
        "refused => UnsafeFileError with that verdict; every non-return => zero resolutions and empty sink.",
        ref="§3/C02, §2/E3",
        note="Trusted: severities of the fixed shapes (cross-checked by C10); flips during the first parse pass are recorded as observations only.",
    ),
    "C06": dict(
        level="model_checking",
        technique=E3 + " (reference = stopping point of pickletools.genops / the stock unpickler)",
        text="~1.5k (quick) / ~9k pickles (every argument-carrying opcode at 1/2/4/8-byte length boundaries, corpus values and objects at "
        "protocols 0-5 framed and unframed) x 7 trailers (incl. newline-separated pickles) x 11 deliveries (bytes, bytearray, BytesIO at 0 and at an offset, real file, "
        "r+b / spooled / user-defined seekable streams, non-seekable raw, short-read and buffered streams): dumps() must equal the first pickle, the stream must sit right after it and the trailer must "
        "remain readable; all stacks of 1..3/4 pickles from a 7-element sub-corpus must partition the input.",
        ref="§3/C06",
        note="Trusted: pickletools.genops as the delimiter of the first pickle.",
    ),
    "C08": dict(
        level="model_checking",
        technique=E3 + ": base pickles x injection modes x loaders, rewritten bytes really loaded under a sink and a find_class audit monitor",
        text="180 (quick) / ~330 base pickles (fixture objects, shared refs, 300 memo entries, protocols 0-5 framed/unframed, assembler programs using "
        "the injector's own memo keys) x 21 injection modes x {C unpickler, pure-Python unpickler for unframed}: exactly one injected call with "
        "exactly the arguments, original effects and resolutions preserved in order, return value kept/replaced as documented, VM stack empty at "
        "STOP, single trailing STOP, own verdict not LIKELY_SAFE.",
        ref="§3/C08",
        note="Trusted: fixture sink; reference VM (stubs) for the stack shape; frames stripped for that observation only.",
    ),
    "C10": dict(
        level="model_checking",
        technique=E3 + ": all stacks of 1..3/4 pickles over 6 severity shapes x every face of the verdict; all 36 severity pairs x 6 operators",
        text="1069 / 2750 files (stacks of 1..4/5 over 7 severity shapes, plus 3 multi-finding shapes alone and in pairs) x {per-pickle library verdict, to_dict, is_likely_safe, checked loader at 6 thresholds, CLI --check-safety under "
        "4 option sets from a path and 2 from a non-seekable stdin (exit status and decoded JSON report)} compared through an independent rank table; "
        "the same path rewritten and asked again, also with equal size and modification time; "
        "Severity comparison operators checked on all ordered pairs.",
        ref="§3/C10",
        note="Trusted: rank table in vp/vocab.py; POSSIBLY_UNSAFE is not produced by any analysis.",
    ),
    "C15": dict(
        level="model_checking",
        technique=E3 + ": boundary value list x construction helpers, delivered value compared by type and value; every opcode class encoded and read back with pickletools",
        text="~320 values (ints at every width boundary and sign, floats incl. -0.0/inf/nan, bools, ASCII/Latin-1/BMP/astral/control/numeric-looking "
        "text, bytes, nested lists and dicts) x 7 helpers + CLI --create; 62 opcode classes x representative arguments through encode() and "
        "pickletools.genops.",
        ref="§3/C15",
        note="Trusted: stock unpickler + pickletools as the reader; exceptions at build or dumps() time count as refusal.",
    ),
    "C18": dict(
        level="model_checking",
        technique=E3 + ": stacks x targets x flags x input channel through the real CLI in-process",
        text="All stacks of 1..3/4 pickles over a 9/12-pickle corpus (incl. a member that only encodes with surrogatepass) x targets 0..n+1 x --run-last x --replace-result x {file, non-seekable stdin}: "
        "output must split into n pickles, neighbours byte-identical, target equal to the library injection on that pickle alone, out-of-range "
        "targets fail and emit nothing; plain decompilation must be one valid program binding result0..n-1 to the right values (run under "
        "stubs against the reference VM) with no variable assigned twice.",
        ref="§3/C18",
        note="Trusted: genops-based stack splitter; stub world for values.",
    ),
    "C01": dict(
        level="model_checking",
        technique=E1 + ", every terminal program and every byte-level corruption of natural malicious pickles run through all analysis entry points inside an audit-hook sandbox",
        text="Every terminal program over core opcodes x {canary module, canary sub-package, os.system, builtins.eval/exec, sink} resolved through "
        "GLOBAL / STACK_GLOBAL / INST to depth 4/5, natural __reduce__ payloads (os.system, eval, exec, Popen, socket, nested pickle.loads) at "
        "protocols 0-5, calls a 'helpful' analysis might evaluate (codec lookup by an input-chosen name, marshal.loads of input bytes, attribute "
        "lookup on an already loaded module, allow-listed globals of packages that are not installed, URL-fetching callees), 4-5 MiB inputs "
        "through non-seekable streams and CLI stdin, and every proper prefix and per-offset byte replacement of those, are passed to 12 entry points (parse, stacked parse, "
        "ast, unparse, trace, check_safety, summaries, is_likely_safe, CLI decompile/trace/check-safety). A CPython audit hook in the worker "
        "records imports of canary modules and of any module named in the input, exec/compile of non-library code, opens for writing, process/socket/ctypes events, find_class; "
        "sys.modules, the scratch directory and canary marker files are diffed.",
        ref="§3/C01, §2/E4",
        note="Trusted: CPython audit events as the effect monitor (after a warm-up pass); bounded alphabet/depth and corruption alphabet.",
    ),
    "C07": dict(
        level="model_checking",
        technique=E3 + ": payload trees (loader x container per level) x leaf global x entry point x additions; ground truth from an unprotected reference load",
        text="All payload trees of depth 0..2 (quick) / 0..3 (thorough) with levels (torch.storage._load_from_bytes | pickle.loads | "
        "_pickle.loads | pickle.loads on a BYTEARRAY8 payload) x (bare pickle | legacy torch container | zip torch container), 7 leaf globals (incl. INST-only, dotted protocol-4 "
        "names, unlisted member of a listed module, an import-only stdlib name the static analysis passes), through the 4 hooked entry points, "
        "bytearray / memoryview arguments, and pickle.load with fickling's static hook (global or context manager) layered on top, under 4 addition sets, "
        "also after a re-activation (the earlier activation used once) without removal; one stream holding two pickles read by two loads with a re-activation in between. After every protected load a follow-up load of a non-listed global under the same activation must still be refused. "
        "Every pickle.find_class audit event during the protected load must be allowed (the built-in allowlist is taken once, before any activation); if the reference load reaches "
        "a global outside the allowed set the protected load must raise UnsafeFileError and the sink must stay empty.",
        ref="§3/C07",
        note="Trusted: find_class audit events see every unpickler instance; payloads harmless and really loaded; torch 2.14 of this image.",
    ),
    "C16": dict(
        level="model_checking",
        technique=E3 + ": saved objects x payload strings x overwrite, archive members and reloaded model compared",
        text="24 saved objects (modules, state dicts, nested containers, 5 dtypes x 3 shapes incl. zero-size, shared storages, >255 memo entries, a storage above 1 MiB) "
        "x 26-52 payloads (incl. texts equal to a string of the model pickle) x overwrite (with a stale file at the output path), plus a second injection into the same "
        "unchanged file and a re-injection into the injected file: member list and bytes, data.pkl vs the library injection, input sha256, torch.load(weights_only=False) of the result under "
        "a sink (payload exactly once, exact text) and tensor/dtype/shape/storage-sharing equality.",
        ref="§3/C16",
        note="Trusted: torch.save/torch.load of this image as writer and reader.",
    ),
    "C17": dict(
        level="fault_enumeration",
        technique=E3F + ": 384 synthetic zips against the documented table, real files, all ordered pairs through create_polyglot, and every file-system fault point of each pair",
        text="32 marker subsets x placement x leading junk x trailer; 9 real files (torch.save zip/legacy, torch.jit.save, legacy tar, MAR, plain zip, "
        "text, plain pickle); identification twice (determinism), sha256 and directory listing (read-only); every ordered pair through "
        "create_polyglot, then for each pair the k-th copy/write/extract/append call raises OSError for every k: inputs unchanged, no "
        "temporary file or directory left, successful outputs identified as both formats; several values of the version record; recursive "
        "identification of a tar / zip whose member names are traversal or absolute paths (whole scratch tree listed before and after).",
        ref="§3/C17",
        note="Trusted: decision table transcribed from the documentation; torch's own zip reader for the 'accepted by torch' clause; numpy files are "
        "left out (fickling's numpy probe uses a private numpy attribute that numpy 2.5 no longer has; the repo's own numpy tests fail for that reason).",
    ),
}

NOT_YET = {}


def main():
    props = [json.loads(l) for l in open(os.path.join(HERE, "properties.jsonl"))]
    checks = []
    na = []
    for p in props:
        pid = p["id"]
        if pid in CHECKS:
            c = CHECKS[pid]
            checks.append(
                {
                    "property_id": pid,
                    "quick_cmd": f"./vcheck {pid} --tier quick",
                    "thorough_cmd": f"./vcheck {pid} --tier thorough",
                    "evidence_file": f"evidence/{pid}.json",
                    "replay_cmd_template": f"./vcheck {pid} --replay {{path}}",
                    "engine": c.get("engine", "vp"),
                    "level_claimed": {"category": c["level"], "text": c["text"], "design_ref": c["ref"]},
                    "level_note": c["note"],
                    "technique": c["technique"],
                }
            )
        else:
            na.append({"property_id": pid, "reason": NOT_YET.get(pid, "check not built yet in this round (planned; see DESIGN.md §3)")})
    m = {
        "version": 1,
        "setup_cmd": "./setup.sh",
        "hooks": {
            "guard": "FICKLING_VERIF",
            "enable": "no source hooks are needed: the harness subclasses, wraps and observes fickling from outside (FICKLING_VERIF=1 is exported by ./vcheck but nothing in /repo reads it)",
            "baseline_off_cmd": "cd /repo && /venv/bin/python -m pytest -ra -q -p no:cacheprovider --timeout=900 --continue-on-collection-errors",
            "source_commits": [],
            "add_only": True,
        },
        "engines": [
            {"name": "vp", "path": "vp/", "serves_properties": sorted(CHECKS), "kind_free_text": "hand-written explicit-state explorers in Python driving the real fickling code in-process (E1 product VM explorer, E2 history explorer, E3 finite products + fault enumeration, E4 audit-hook sandbox)"}
        ],
        "checks": checks,
        "not_applicable": na,
        "notes": "See DESIGN.md. known_findings.json lists genuine pinned-tree defects (open) and repaired ones (fixed).",
    }
    with open(os.path.join(HERE, "MANIFEST.json"), "w") as f:
        json.dump(m, f, indent=1)
    print(f"checks={len(checks)} not_applicable={len(na)}")


if __name__ == "__main__":
    main()
