#!/usr/bin/env python3
"""Regenerates /verif/MANIFEST.json from the table below (run after adding a check)."""
import json
import os

HERE = os.path.dirname(os.path.dirname(os.path.abspath(__file__)))

E1 = "bounded-exhaustive explicit-state exploration of opcode programs: reference pickle VM x fickling interpreter product (hand-written explorer, every transition executed on the real code)"
E2 = "explicit-state BFS over operation histories of the real API against a small reference model, states merged on (model state, abstract real state)"
E3 = "exhaustive enumeration of a finite configuration product, every point executed on the real code against a reference model"
E3F = "exhaustive enumeration of a finite configuration product plus every fault point of each history (stream / file-system fault injection)"

CHECKS = {
    "C09": dict(
        level="model_checking",
        technique=E1 + "; step invariant after every opcode",
        text="Every opcode sequence over a 37-44 symbol typed alphabet up to depth 4 (quick) / 5 (thorough), and every prefix of "
        "every corpus pickle at protocols 0-5, is stepped on CPython's pure-Python unpickler and on fickling's Interpreter; "
        "stack depth, mark positions and memo keys are compared after every opcode, and Trace.run is compared with untraced "
        "decompilation on every terminal program. Exhaustive within the bound, which is where stack-effect bugs live (one "
        "opcode x one continuation).",
        ref="§3/C09, §2/E1",
        note="Trusted: CPython's pure-Python unpickler as the reference VM; the typing discipline that disables ill-typed mutator "
        "transitions; bounded alphabet/depth.",
    ),
}

NOT_YET = {}


def main():
    props = [json.loads(l) for l in open(os.path.join(HERE, "properties.jsonl"))]
    checks = []
    na = []
    for p in props:
        pid = p["id"]
        if pid in CHECKS:
            c = CHECKS[pid]
            checks.append(
                {
                    "property_id": pid,
                    "quick_cmd": f"./vcheck {pid} --tier quick",
                    "thorough_cmd": f"./vcheck {pid} --tier thorough",
                    "evidence_file": f"evidence/{pid}.json",
                    "replay_cmd_template": f"./vcheck {pid} --replay {{path}}",
                    "engine": c.get("engine", "vp"),
                    "level_claimed": {"category": c["level"], "text": c["text"], "design_ref": c["ref"]},
                    "level_note": c["note"],
                    "technique": c["technique"],
                }
            )
        else:
            na.append({"property_id": pid, "reason": NOT_YET.get(pid, "check not built yet in this round (planned; see DESIGN.md §3)")})
    m = {
        "version": 1,
        "setup_cmd": "./setup.sh",
        "hooks": {
            "guard": "FICKLING_VERIF",
            "enable": "no source hooks are needed: the harness subclasses, wraps and observes fickling from outside (FICKLING_VERIF=1 is exported by ./vcheck but nothing in /repo reads it)",
            "baseline_off_cmd": "cd /repo && /venv/bin/python -m pytest -ra -q -p no:cacheprovider --timeout=900 --continue-on-collection-errors",
            "source_commits": [],
            "add_only": True,
        },
        "engines": [
            {"name": "vp", "path": "vp/", "serves_properties": sorted(CHECKS), "kind_free_text": "hand-written explicit-state explorers in Python driving the real fickling code in-process (E1 product VM explorer, E2 history explorer, E3 finite products + fault enumeration, E4 audit-hook sandbox)"}
        ],
        "checks": checks,
        "not_applicable": na,
        "notes": "See DESIGN.md. known_findings.json lists genuine pinned-tree defects (open) and repaired ones (fixed).",
    }
    with open(os.path.join(HERE, "MANIFEST.json"), "w") as f:
        json.dump(m, f, indent=1)
    print(f"checks={len(checks)} not_applicable={len(na)}")


if __name__ == "__main__":
    main()
