#!/usr/bin/env python3
"""Writes seeded/RESULTS.md from seeded/*/meta.json (kill matrix of the seeded defects)."""
import glob
import json
import os

HERE = os.path.dirname(os.path.dirname(os.path.abspath(__file__)))
rows = []
for mp in sorted(glob.glob(os.path.join(HERE, "seeded", "*", "meta.json"))):
    m = json.load(open(mp))
    notes = os.path.join(os.path.dirname(mp), "notes.md")
    title = ""
    if os.path.exists(notes):
        for ln in open(notes):
            ln = ln.strip().lstrip("# ").strip()
            if ln:
                title = ln[:140]
                break
    checks = "; ".join(f"{p}: {'DETECTED' if c['detected'] else 'missed'} ({c['tier']}, {c['wall_s']}s)" for p, c in m.get("checks", {}).items())
    first = ""
    for p, c in m.get("checks", {}).items():
        if c["detected"] and c["first_violation"]:
            first = c["first_violation"][0].strip()[:160]
            break
    rows.append((m["id"], m["breaks_property"], title, checks, first))
with open(os.path.join(HERE, "seeded", "RESULTS.md"), "w") as f:
    f.write("# Seeded defects (independent sub-agents) and which checks report them\n\n")
    f.write("Every row was confirmed in a scratch worktree: demo passes without the patch, fails with it, the pinned suite still passes with it.\n\n")
    f.write("| seed | property | change | checks run against it | first violation reported |\n|---|---|---|---|---|\n")
    for r in rows:
        f.write("| " + " | ".join(x.replace("|", "\\|") for x in r) + " |\n")
    own = sum(1 for r in rows if (r[1] + ": DETECTED") in r[3])
    anyc = sum(1 for r in rows if "DETECTED" in r[3])
    f.write(f"\n{len(rows)} seeds; reported by the check of their own property: {own}; reported by at least one check: {anyc}.\n")
print(len(rows))
