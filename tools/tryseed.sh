#!/bin/bash
# usage: tools/tryseed.sh <seed-id> <Cxx> [tier]   -- run one check against a scratch copy of /repo with the seed applied
# (never touches /repo; the copy lives under /tmp and is removed afterwards)
set -u
seed=$1; chk=$2; tier=${3:-quick}
d=$(mktemp -d /tmp/vp-try-XXXXXX)
cp -r /repo/fickling "$d/fickling"
( cd "$d" && (patch -p1 -s -F3 < /verif/seeded/$seed/patch.diff >/dev/null 2>&1 || echo "PATCH-FAILED") )
find "$d" -name '*.orig' -delete
VERIF_REPO=$d VERIF_EVIDENCE_DIR=$d/ev VERIF_REPLAY_DIR=$d/rp /verif/vcheck $chk --tier $tier 2>&1 | grep -v conda | grep -v "^KNOWN" | cut -c1-${COLS:-260} | grep -v "^VIOLATION" | head -${LINES_MAX:-4}
rm -rf "$d"
