#!/bin/bash
# run the pinned test suite of a fickling tree (default /repo); prints pass/fail counts
tree="${1:-/repo}"
out="$(mktemp /tmp/vp-junit-XXXXXX.xml)"
cd "$tree" && /venv/bin/python -m pytest -ra -q -p no:cacheprovider --timeout=900 --continue-on-collection-errors --junitxml="$out" >/tmp/vp-pytest-$$.log 2>&1
/venv/bin/python - "$out" <<'P'
import sys, json, xml.etree.ElementTree as ET
base=json.load(open('/root/.vp/BASELINE.json'))
want=set(base['stable_pass'])
t=ET.parse(sys.argv[1])
ok=set()
for tc in t.iter('testcase'):
    name=f"{tc.get('classname')}::{tc.get('name')}"
    if not any(ch.tag in ('failure','error','skipped') for ch in tc):
        ok.add(name)
missing=sorted(want-ok)
print(f"baseline_pass={len(want&ok)}/{len(want)} missing={missing}")
sys.exit(1 if missing else 0)
P
rc=$?
rm -f "$out" /tmp/vp-pytest-$$.log
exit $rc
