#!/usr/bin/env python3
"""Mechanical mutation sweep: how many small source mutations of fickling do the quick checks report?

Mutants (AST-located, one per site): delete one simple statement; flip one comparison operator; drop one `not`;
swap `and`/`or`; shift one small integer constant.  Each mutant is a scratch copy of the `fickling` package outside
/repo and /verif (VERIF_REPO points the checks at it).  For every mutant the relevant quick checks run cheapest-first and
stop at the first that reports it.  Survivors are then run against the pinned test suite (a survivor the suite kills is
not a realistic change).  Results: mutants/results.jsonl + mutants/SUMMARY.md.

usage: mutsweep.py [--files a.py,b.py] [--limit N] [--jobs J] [--kinds delete,cmp,not,bool,const]
"""
import ast
import json
import os
import shutil
import subprocess
import sys
import tempfile
import time
from concurrent.futures import ThreadPoolExecutor

VERIF = os.path.dirname(os.path.dirname(os.path.abspath(__file__)))
REPO = "/repo"

CHECKS_FOR = {
    "fickle.py": ["C15", "C18", "C06", "C08", "C10", "C02", "C04", "C19", "C09", "C03", "C14", "C05", "C13", "C16"],
    "analysis.py": ["C10", "C02", "C04", "C19", "C13", "C08", "C14"],
    "loader.py": ["C02", "C10", "C19", "C12"],
    "hook.py": ["C12", "C07", "C11", "C02"],
    "context.py": ["C12", "C02", "C11"],
    "ml.py": ["C07", "C11", "C12"],
    "cli.py": ["C10", "C18", "C15", "C01"],
    "tracing.py": ["C09", "C13", "C18"],
    "pytorch.py": ["C16"],
    "polyglot.py": ["C17", "C16"],
    "exception.py": ["C02", "C10", "C19"],
}


# second pass (--rerun-survivors): the five most expensive checks are left out for fickle.py (a survivor costs every check
# of its list; with them one survivor takes ~8 minutes of the whole machine)
CHECKS_FOR_PASS2 = dict(CHECKS_FOR, **{"fickle.py": ["C15", "C18", "C06", "C08", "C10", "C02", "C04", "C19", "C16", "C14"]})


def sites(path, kinds):
    src = open(path).read()
    tree = ast.parse(src)
    lines = src.splitlines(keepends=True)
    out = []

    def seg(node):
        return (node.lineno, node.col_offset, node.end_lineno, node.end_col_offset)

    class V(ast.NodeVisitor):
        def __init__(self):
            self.func = None

        def visit_FunctionDef(self, node):
            prev, self.func = self.func, node.name
            body = node.body
            for st in ast.walk(node):
                pass
            self.generic_visit(node)
            self.func = prev

        visit_AsyncFunctionDef = visit_FunctionDef

        def generic_visit(self, node):
            for fld in ("body", "orelse", "finalbody"):
                stmts = getattr(node, fld, None)
                if isinstance(stmts, list) and stmts and isinstance(stmts[0], ast.stmt) and self.func and "delete" in kinds:
                    for st in stmts:
                        if isinstance(st, (ast.Expr, ast.Assign, ast.AugAssign, ast.Delete)) and not (
                            isinstance(st, ast.Expr) and isinstance(st.value, ast.Constant)
                        ):
                            out.append(("delete", self.func, seg(st), "pass"))
            super().generic_visit(node)

        def visit_Compare(self, node):
            if self.func and "cmp" in kinds and len(node.ops) == 1:
                swap = {ast.Lt: "<=", ast.LtE: "<", ast.Gt: ">=", ast.GtE: ">", ast.Eq: "!=", ast.NotEq: "==", ast.In: "not in",
                        ast.NotIn: "in", ast.Is: "is not", ast.IsNot: "is"}
                t = type(node.ops[0])
                if t in swap:
                    l, r = node.left, node.comparators[0]
                    out.append(("cmp", self.func, (l.end_lineno, l.end_col_offset, r.lineno, r.col_offset), f" {swap[t]} "))
            self.generic_visit(node)

        def visit_UnaryOp(self, node):
            if self.func and "not" in kinds and isinstance(node.op, ast.Not):
                o = node.operand
                out.append(("not", self.func, (node.lineno, node.col_offset, o.lineno, o.col_offset), ""))
            self.generic_visit(node)

        def visit_BoolOp(self, node):
            if self.func and "bool" in kinds and len(node.values) == 2:
                a, b = node.values
                new = " or " if isinstance(node.op, ast.And) else " and "
                out.append(("bool", self.func, (a.end_lineno, a.end_col_offset, b.lineno, b.col_offset), new))
            self.generic_visit(node)

        def visit_Constant(self, node):
            if self.func and "const" in kinds and type(node.value) is int and -2 <= node.value <= 3:
                out.append(("const", self.func, seg(node), str(node.value + 1)))

    V().visit(tree)

    def apply(site):
        kind, func, (l1, c1, l2, c2), new = site
        ls = list(lines)
        if l1 == l2:
            ls[l1 - 1] = ls[l1 - 1][:c1] + new + ls[l1 - 1][c2:]
        else:
            ls[l1 - 1] = ls[l1 - 1][:c1] + new + ls[l2 - 1][c2:]
            del ls[l1:l2]
        return "".join(ls)

    res = []
    seen = set()
    for s in out:
        key = (s[0], s[2])
        if key in seen:
            continue
        seen.add(key)
        try:
            m = apply(s)
            ast.parse(m)
        except SyntaxError:
            continue
        orig = "".join(lines[s[2][0] - 1:s[2][2]]).strip()
        res.append({"kind": s[0], "func": s[1], "line": s[2][0], "orig": orig[:160], "new": s[3], "source": m})
    return res


def run(cmd, env=None, cwd=None, timeout=1800):
    try:
        return subprocess.run(cmd, shell=True, capture_output=True, text=True, env=env, cwd=cwd, timeout=timeout)
    except subprocess.TimeoutExpired as e:
        class R:
            returncode = 124
            stdout = (e.stdout or b"").decode() if isinstance(e.stdout, bytes) else (e.stdout or "")
            stderr = "timeout"
        return R()


def evaluate(args):
    fname, idx, mut, jobs = args
    d = tempfile.mkdtemp(prefix="vp-mut-", dir="/tmp")
    rec = {"file": fname, "idx": idx, "kind": mut["kind"], "func": mut["func"], "line": mut["line"], "orig": mut["orig"], "new": mut["new"]}
    try:
        shutil.copytree(os.path.join(REPO, "fickling"), os.path.join(d, "fickling"))
        with open(os.path.join(d, "fickling", fname), "w") as f:
            f.write(mut["source"])
        env = dict(os.environ, VERIF_REPO=d, VERIF_JOBS=str(jobs), VERIF_EVIDENCE_DIR=os.path.join(d, "ev"), VERIF_REPLAY_DIR=os.path.join(d, "rp"),
                   PYTHONPATH=d)
        r = run("/venv/bin/python -W ignore -c 'import fickling, fickling.fickle, fickling.analysis'", env=env)
        if r.returncode != 0:
            rec["outcome"] = "does-not-import"
            return rec
        t0 = time.time()
        for chk in (CHECKS_FOR_PASS2 if os.environ.get("MUTSWEEP_PASS2") else CHECKS_FOR).get(fname, []):
            c = run(f"./vcheck {chk} --tier quick", env=env, cwd=VERIF, timeout=1500)
            if c.returncode == 1 and "VIOLATION" in c.stdout:
                first = next((ln.strip() for ln in c.stdout.splitlines() if ln.startswith("  [")), "")
                rec.update(outcome="killed", by=chk, first=first[:200], wall=round(time.time() - t0, 1))
                return rec
            if c.returncode not in (0, 1) or (c.returncode == 1 and "VIOLATION" not in c.stdout):
                rec.update(outcome="check-crashed", by=chk, first=(c.stderr or "")[-300:], wall=round(time.time() - t0, 1))
                return rec
        rec.update(outcome="survived", wall=round(time.time() - t0, 1))
        # is it realistic? does the pinned suite still pass with it?
        shutil.copytree(os.path.join(REPO, "test"), os.path.join(d, "test"))
        for extra in ("pyproject.toml",):
            shutil.copy(os.path.join(REPO, extra), os.path.join(d, extra))
        t = run(f"{VERIF}/tools/run_tests.sh {d}", timeout=1800)
        rec["suite"] = "passes" if t.returncode == 0 else "fails"
        rec["suite_detail"] = [ln for ln in t.stdout.splitlines() if ln.startswith("baseline_pass")][:1]
        return rec
    finally:
        shutil.rmtree(d, ignore_errors=True)


def main():
    argv = sys.argv[1:]

    def opt(name, default):
        return argv[argv.index(name) + 1] if name in argv else default

    files = opt("--files", "fickle.py,analysis.py,loader.py,hook.py,context.py,ml.py,cli.py,tracing.py").split(",")
    kinds = set(opt("--kinds", "delete,cmp,not,bool,const").split(","))
    limit = int(opt("--limit", "0"))
    jobs = int(opt("--jobs", "4"))
    conc = int(opt("--concurrency", "4"))
    stride = int(opt("--stride", "1"))
    outdir = os.path.join(VERIF, "mutants")
    os.makedirs(outdir, exist_ok=True)
    work = []
    for fn in files:
        ms = sites(os.path.join(REPO, "fickling", fn), kinds)
        ms = ms[::stride]
        if limit:
            ms = ms[:limit]
        for i, m in enumerate(ms):
            work.append((fn, i, m, jobs))
    print(f"{len(work)} mutants", flush=True)
    done = set()
    resf = os.path.join(outdir, "results.jsonl")
    if "--rerun-survivors" in argv:
        # second pass: the survivors of the first pass against the checks as they are now
        surv = set()
        for ln in open(resf):
            r = json.loads(ln)
            if r["outcome"] == "survived" and r.get("suite") == "passes":
                surv.add((r["file"], r["kind"], r["line"], r["new"], r["orig"]))
        work = [w for w in work if (w[0], w[2]["kind"], w[2]["line"], w[2]["new"], w[2]["orig"]) in surv]
        resf = os.path.join(outdir, "results_pass2.jsonl")
        os.environ["MUTSWEEP_PASS2"] = "1"
        if os.path.exists(resf):
            for ln in open(resf):
                r = json.loads(ln)
                done.add((r["file"], r["kind"], r["line"], r["new"], r["orig"]))
            work = [w for w in work if (w[0], w[2]["kind"], w[2]["line"], w[2]["new"], w[2]["orig"]) not in done]
    if os.path.exists(resf):
        for ln in open(resf):
            r = json.loads(ln)
            done.add((r["file"], r["kind"], r["line"], r["new"], r["orig"]))
    work = [w for w in work if (w[0], w[2]["kind"], w[2]["line"], w[2]["new"], w[2]["orig"]) not in done]
    print(f"{len(work)} to run", flush=True)
    with ThreadPoolExecutor(conc) as ex, open(resf, "a") as out:
        for rec in ex.map(evaluate, work):
            out.write(json.dumps(rec) + "\n")
            out.flush()
            print(rec["file"], rec["line"], rec["kind"], rec["outcome"], rec.get("by", ""), rec.get("suite", ""), flush=True)
    summarize(outdir)


def summarize(outdir):
    recs = [json.loads(ln) for ln in open(os.path.join(outdir, "results.jsonl"))]
    p2 = os.path.join(outdir, "results_pass2.jsonl")
    if os.path.exists(p2):
        # a survivor that the second pass (strengthened checks) kills counts as killed, marked as such
        later = {}
        for ln in open(p2):
            r = json.loads(ln)
            later[(r["file"], r["kind"], r["line"], r["new"], r["orig"])] = r
        for i, r in enumerate(recs):
            k = (r["file"], r["kind"], r["line"], r["new"], r["orig"])
            if r["outcome"] == "survived" and k in later and later[k]["outcome"] != "survived":
                recs[i] = dict(later[k], suite=r.get("suite"), second_pass=True)
    by = {}
    for r in recs:
        by.setdefault(r["outcome"], []).append(r)
    with open(os.path.join(outdir, "SUMMARY.md"), "w") as f:
        f.write("# Mechanical mutation sweep (tools/mutsweep.py)\n\n")
        f.write(f"{len(recs)} mutants: " + ", ".join(f"{k}: {len(v)}" for k, v in sorted(by.items())) + "\n\n")
        surv = by.get("survived", [])
        real = [r for r in surv if r.get("suite") == "passes"]
        f.write(f"Survivors: {len(surv)}, of which the pinned suite still passes for {len(real)}.\n\n")
        f.write("## Survivors the pinned suite does not kill either\n\n| file | line | kind | function | original | replacement |\n|---|---|---|---|---|---|\n")
        for r in sorted(real, key=lambda r: (r["file"], r["line"])):
            f.write(f"| {r['file']} | {r['line']} | {r['kind']} | {r['func']} | `{r['orig'][:90]}` | `{r['new'].strip()}` |\n")
        f.write("\n## Killed, by check\n\n")
        kc = {}
        for r in by.get("killed", []):
            kc[r["by"]] = kc.get(r["by"], 0) + 1
        f.write(", ".join(f"{k}: {v}" for k, v in sorted(kc.items())) + "\n")
        sp = [r for r in recs if r.get("second_pass")]
        if sp:
            f.write(f"\n{len(sp)} of the killed mutants survived the first pass and are killed by the checks as strengthened since "
                    "(second pass, results_pass2.jsonl).\n")


if __name__ == "__main__":
    if "--summarize" in sys.argv:
        summarize(os.path.join(VERIF, "mutants"))
    else:
        main()
