#!/usr/bin/env python3
"""Validate one seeded defect and run checks against it.

usage: seedcheck.py <dir with patch.diff + demo.py> <seed-id> <Cxx> [more Cxx ...] [--keep] [--tier quick]
Confirms (in a scratch worktree outside /repo and /verif): demo passes without the patch, fails with it, the
pinned test suite still passes with it; then runs ./vcheck for the given properties against the patched tree.
"""
import json
import os
import shutil
import subprocess
import sys
import tempfile
import time

VERIF = os.path.dirname(os.path.dirname(os.path.abspath(__file__)))


def sh(cmd, **kw):
    return subprocess.run(cmd, shell=True, capture_output=True, text=True, **kw)


def main():
    args = [a for a in sys.argv[1:] if not a.startswith("--")]
    src, sid, props = args[0], args[1], args[2:]
    tier = "quick"
    if "--thorough" in sys.argv:
        tier = "thorough"
    skip_tests = "--skip-tests" in sys.argv
    wt = tempfile.mkdtemp(prefix="vp-seedwt-", dir="/tmp")
    os.rmdir(wt)
    res = {"seed": sid, "props": props}
    try:
        r = sh(f"git -C /repo worktree add -q --detach {wt} HEAD")
        assert r.returncode == 0, r.stderr
        env = dict(os.environ, PYTHONPATH=wt, PYTHONHASHSEED="0")
        demo = os.path.join(wt, "_vp_demo.py")
        with open(demo, "w") as f:  # drop guards that pin the demo to the sub-agent's own worktree path
            f.write("".join(ln for ln in open(os.path.join(src, "demo.py")) if "__file__.startswith" not in ln))
        r0 = sh(f"/venv/bin/python -W ignore {demo}", cwd=wt, env=env, timeout=900)
        res["demo_clean_rc"] = r0.returncode
        r = sh(f"git -C {wt} apply {os.path.join(src, 'patch.diff')}")
        if r.returncode != 0:
            # the patch was written against an earlier HEAD: retry with fuzz (context lines moved by later fix commits)
            r = sh(f"patch -p1 -F3 --no-backup-if-mismatch -i {os.path.join(src, 'patch.diff')}", cwd=wt)
            res["applied_with_fuzz"] = r.returncode == 0
        res["apply_rc"] = r.returncode
        if r.returncode != 0:
            res["apply_err"] = r.stderr[-500:]
            print(json.dumps(res, indent=1))
            return 1
        r1 = sh(f"/venv/bin/python -W ignore {demo}", cwd=wt, env=env, timeout=900)
        res["demo_patched_rc"] = r1.returncode
        res["demo_patched_tail"] = (r1.stdout + r1.stderr)[-300:]
        if not skip_tests:
            t = sh(f"{VERIF}/tools/run_tests.sh {wt}", timeout=1800)
            res["tests"] = [ln for ln in t.stdout.splitlines() if ln.startswith("baseline_pass")]
            res["tests_ok"] = t.returncode == 0
        ev = tempfile.mkdtemp(prefix="vp-seedev-", dir="/tmp")
        for p in props:
            t0 = time.time()
            e = dict(os.environ, VERIF_REPO=wt, VERIF_EVIDENCE_DIR=ev, VERIF_REPLAY_DIR=os.path.join(ev, "replays"))
            c = sh(f"./vcheck {p} --tier {tier}", cwd=VERIF, env=e, timeout=7200)
            lines = [ln for ln in c.stdout.splitlines() if ln.startswith("VIOLATION") or ln.startswith("  [")]
            res[p] = {"rc": c.returncode, "detected": c.returncode == 1 and any(ln.startswith("VIOLATION") for ln in lines),
                      "first": [ln[:300] for ln in lines if ln.startswith("  [")][:3], "wall": round(time.time() - t0, 1),
                      "stderr": c.stderr[-300:] if c.returncode not in (0, 1) else ""}
        shutil.rmtree(ev, ignore_errors=True)
    finally:
        sh(f"git -C /repo worktree remove --force {wt}")
        shutil.rmtree(wt, ignore_errors=True)
    existing = os.path.join(VERIF, "seeded", sid, "meta.json")
    if skip_tests and os.path.exists(existing):
        res["tests_ok"] = True  # confirmed when the seed was first stored; this run only refreshes the check results
        res["tests"] = json.load(open(existing)).get("confirmed", {}).get("pinned_suite_with_patch")
    if "--store" in sys.argv and res.get("demo_clean_rc") == 0 and res.get("demo_patched_rc") not in (0, None) and res.get("tests_ok"):
        dst = os.path.join(VERIF, "seeded", sid)
        os.makedirs(dst, exist_ok=True)
        same = os.path.realpath(src) == os.path.realpath(dst)  # refreshing a stored seed in place
        if not same:
            shutil.copy(os.path.join(src, "patch.diff"), os.path.join(dst, "patch.diff"))
            demo_src = "".join(ln for ln in open(os.path.join(src, "demo.py")) if "__file__.startswith" not in ln)
            with open(os.path.join(dst, "demo.py"), "w") as f:
                f.write(demo_src)
        notes = ""
        if os.path.exists(os.path.join(src, "notes.md")):
            notes = open(os.path.join(src, "notes.md")).read()
            if not same:
                shutil.copy(os.path.join(src, "notes.md"), os.path.join(dst, "notes.md"))
        meta_path = os.path.join(dst, "meta.json")
        meta = json.load(open(meta_path)) if os.path.exists(meta_path) else {}
        meta.update({
            "id": sid,
            "breaks_property": props[0],
            "origin": "independent sub-agent given only the property text and a scratch worktree",
            "needs_to_manifest": _needs(notes),
            "confirmed": {"demo_passes_without_patch": True, "demo_fails_with_patch": True,
                          "pinned_suite_with_patch": res.get("tests")},
            "ran": [f"git apply patch.diff in a scratch worktree of /repo HEAD; demo.py without/with patch; tools/run_tests.sh; "
                    f"VERIF_REPO=<worktree> ./vcheck <prop> --tier {tier}"],
        })
        det = meta.setdefault("checks", {})
        for p in props:
            det[p] = {"tier": tier, "detected": res[p]["detected"], "first_violation": res[p]["first"][:1], "wall_s": res[p]["wall"]}
        with open(meta_path, "w") as f:
            json.dump(meta, f, indent=1)
    print(json.dumps(res, indent=1))
    return 0


def _needs(notes):
    keep = [ln.strip() for ln in notes.splitlines() if any(w in ln.lower() for w in ("needs", "only", "manifest", "condition", "requires"))]
    return " ".join(keep)[:600] or "see notes.md"


if __name__ == "__main__":
    sys.exit(main())
