#!/bin/bash
# run every quick check on /repo's working tree; one summary line per check; exit 1 if any raises an alarm
cd "$(dirname "$0")/.."
rc=0
for c in C01 C02 C03 C04 C05 C06 C07 C08 C09 C10 C11 C12 C13 C14 C15 C16 C17 C18 C19; do
  s=$(date +%s)
  ./vcheck $c --tier quick > /tmp/vp-q-$c.log 2>&1; r=$?
  e=$(date +%s)
  echo "$c rc=$r $((e-s))s known=$(grep -c '^KNOWN-FINDING' /tmp/vp-q-$c.log) viol=$(grep -c '^VIOLATION' /tmp/vp-q-$c.log) invalid=$(grep -c EVIDENCE-INVALID /tmp/vp-q-$c.log)"
  [ $r -ne 0 ] && rc=1
done
exit $rc
